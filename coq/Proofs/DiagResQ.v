(** C14, residual form on exact rationals: when the reward loop stops, the two diagnostics
    ('probabilities under minimal reward' erm, 'rewards under minimal reachability' ermr) satisfy,
    together with the expected rewards and measured in the FINAL vectors, the equations of one reward
    step up to the threshold at every state. Same argument as RewResQ.sweep_rew_residual, with the
    invariant generalised from [er] to the triple (er, ermr, erm). *)
From Coq Require Import String List Arith Bool Lia QArith Qabs Qreduction Lqa.
From CR Require Import Model.Num Model.Outcome Model.Graph Model.Game
     Proofs.Laws Proofs.GraphP Proofs.GameP Proofs.PruneStatesP Proofs.PipelineP Proofs.RewStepP
     Proofs.ReachQ Proofs.ReachQ2 Proofs.C03Q Proofs.RewQ Proofs.RewQ2 Proofs.RewResQ Proofs.RewQ3.
Import ListNotations.
Local Open Scope Q_scope.

(** * The expressions of one reward step as functions of value vectors *)
(* probability-weighted sum of a vector over a transition list, in plain rational arithmetic *)
Definition psum (x : vec) (l : list trans) : Q := fold_right (fun t s => x (dst t) * pr t + s) 0 l.

(* Player 2's 6-digit reachability strategy at a state with transition list [l], from the vector of
   reachability values [rv]: the actions whose rounded successor value is minimal (scan from 1) *)
Definition p2strats (rv : vec) (l : list trans) : list string :=
  snd (scan_min qops (one qops) (map (fun t => (act t, rnd qops (rv (dst t)))) l)).

(* running minimum of a vector over the transitions whose action is in [strats] *)
Definition rmin (x : vec) (strats : list string) (l : list trans) (m : Q) : Q :=
  fold_left (fun m t => if mem_str (act t) strats
                        then let v := x (dst t) in if qltb v m then v else m
                        else m) l m.

Definition ermr_vec (sl : list nodeQ) : vec := fun i => ermr (getq sl i).
Definition erm_vec (sl : list nodeQ) : vec := fun i => erm (getq sl i).

(* The residual statement at state [i]: kind [k], reward [r], transition list [l], reachability
   values [rv]; X, Y, Z are the vectors of expected rewards, rewards under minimal reachability,
   probabilities under minimal reward; [d] is the tolerance. *)
Definition res_at (k : kind) (r : Q) (l : list trans) (rv X Y Z : vec) (d : Q) (i : nat) : Prop :=
  match l with
  | [] => X i = 0 /\ Y i = 0 /\ Z i = 0
  | _ :: _ =>
    match k with
    | PR => Qabs (r + psum X l - X i) <= d /\ Qabs (r + psum Y l - Y i) <= d /\ Qabs (psum Z l - Z i) <= d
    | P1 => exists t, In t l /\
              Qabs (r + X (dst t) - X i) <= d /\ Qabs (r + Y (dst t) - Y i) <= d /\ Qabs (Z (dst t) - Z i) <= d
    | P2 => (exists t, In t l /\ Qabs (r + X (dst t) - X i) <= d /\ Qabs (Z (dst t) - Z i) <= d) /\
            (p2strats rv l = [] -> Y i = 0) /\
            (p2strats rv l <> [] ->
               exists f0 fl, filter (fun t => mem_str (act t) (p2strats rv l)) l = f0 :: fl /\
                             Qabs (r + rmin Y (p2strats rv l) l (Y (dst f0)) - Y i) <= d)
    end
  end.

(** * Extensionality *)
Lemma psum_ext x y l : (forall i, x i = y i) -> psum x l = psum y l.
Proof. intros H. induction l as [|t l IH]; cbn [psum fold_right]; [reflexivity|]. fold (psum x l) (psum y l). rewrite H, IH. reflexivity. Qed.
Lemma rmin_ext x y s l : (forall i, x i = y i) -> forall m, rmin x s l m = rmin y s l m.
Proof. intros H. induction l as [|t l IH]; intros m; cbn [rmin fold_left]; [reflexivity|]. cbn zeta. rewrite H. apply IH. Qed.
Lemma p2strats_ext rv rv' l : (forall i, rv i = rv' i) -> p2strats rv l = p2strats rv' l.
Proof. intros H. unfold p2strats. f_equal. f_equal. apply map_ext. intros t. rewrite H. reflexivity. Qed.

Lemma res_at_ext k r l rv rv' X X' Y Y' Z Z' d i :
  (forall j, rv j = rv' j) -> (forall j, X j = X' j) -> (forall j, Y j = Y' j) -> (forall j, Z j = Z' j) ->
  res_at k r l rv X Y Z d i -> res_at k r l rv' X' Y' Z' d i.
Proof.
  intros Hrv HX HY HZ. unfold res_at. destruct l as [|t0 l0]; [rewrite HX, HY, HZ; exact (fun h => h)|].
  rewrite <- (p2strats_ext rv rv' (t0 :: l0) Hrv).
  rewrite <- (psum_ext X X' (t0 :: l0) HX), <- (psum_ext Y Y' (t0 :: l0) HY), <- (psum_ext Z Z' (t0 :: l0) HZ).
  destruct k.
  - intros (t & Ht & A & B & C). exists t. rewrite <- !HX, <- !HY, <- !HZ. repeat split; assumption.
  - intros ((t & Ht & A & C) & B0 & B1). split; [|split].
    + exists t. rewrite <- !HX, <- !HZ. repeat split; assumption.
    + intros E. rewrite <- HY. apply B0. exact E.
    + intros E. destruct (B1 E) as (f0 & fl & Ef & B). exists f0, fl. split; [exact Ef|].
      rewrite <- (rmin_ext Y Y' _ _ HY), <- !HY. exact B.
  - rewrite <- !HX, <- !HY, <- !HZ. exact (fun h => h).
Qed.

Lemma res_at_weaken k r l rv X Y Z d d' i : d <= d' -> res_at k r l rv X Y Z d i -> res_at k r l rv X Y Z d' i.
Proof.
  intros Hd. unfold res_at. destruct l as [|t0 l0]; [exact (fun h => h)|]. destruct k.
  - intros (t & Ht & A & B & C). exists t. repeat split; try assumption; eapply Qle_trans; eassumption.
  - intros ((t & Ht & A & C) & B0 & B1). split; [|split; [exact B0|]].
    + exists t. repeat split; try assumption; eapply Qle_trans; eassumption.
    + intros E. destruct (B1 E) as (f0 & fl & Ef & B). exists f0, fl. split; [exact Ef|]. eapply Qle_trans; eassumption.
  - intros (A & B & C). repeat split; eapply Qle_trans; eassumption.
Qed.

(** * The step expressions are 1-Lipschitz in the sup norm *)
Lemma rsum_psum x l : forall a, rsum x l a == a + psum x l.
Proof.
  induction l as [|t l IH]; intros a; cbn [rsum psum fold_left fold_right]; [lra|].
  fold (rsum x l (qadd a (qmul (x (dst t)) (pr t)))). fold (psum x l). rewrite IH, qadd_ok, qmul_ok. lra.
Qed.

Lemma psum_close x y l d : 0 <= d -> (forall i, Qabs (x i - y i) <= d) -> nonneg_w l ->
  Qabs (psum x l - psum y l) <= d * sumw l.
Proof.
  intros Hd H. induction l as [|t l IH]; intros Hp; cbn [psum sumw fold_right].
  - rewrite Qabs_pos; lra.
  - fold (psum x l) (psum y l) (sumw l).
    assert (Hp' : nonneg_w l) by (intros u Hu; apply Hp; right; exact Hu).
    specialize (IH Hp'). specialize (H (dst t)). apply Qabs_Qle_condition in H. apply Qabs_Qle_condition in IH.
    assert (0 <= pr t) by (apply Hp; left; reflexivity).
    set (a := psum x l) in *. set (b := psum y l) in *. set (u := x (dst t)) in *. set (v := y (dst t)) in *.
    apply Qabs_Qle_condition. nra.
Qed.

Lemma psum_close1 x y l d : 0 <= d -> (forall i, Qabs (x i - y i) <= d) -> nonneg_w l -> sumw l <= 1 ->
  Qabs (psum x l - psum y l) <= d.
Proof.
  intros Hd H Hp Hs. eapply Qle_trans; [apply (psum_close x y l d); assumption|].
  pose proof (sumw_nonneg l Hp). nra.
Qed.

Lemma rmin_close x y s l d : (forall i, Qabs (x i - y i) <= d) ->
  forall m m', Qabs (m - m') <= d -> Qabs (rmin x s l m - rmin y s l m') <= d.
Proof.
  intros H. induction l as [|t l IH]; intros m m' Hm; cbn [rmin fold_left]; [exact Hm|].
  apply IH. destruct (mem_str (act t) s); [|exact Hm]. cbn zeta.
  specialize (H (dst t)). apply Qabs_Qle_condition in H. apply Qabs_Qle_condition in Hm.
  apply Qabs_Qle_condition.
  destruct (qltb_cases (x (dst t)) m) as [[-> A]|[-> A]], (qltb_cases (y (dst t)) m') as [[-> B]|[-> B]]; lra.
Qed.

Lemma max3_ge_all a b c : a <= max3 qops a b c /\ b <= max3 qops a b c /\ c <= max3 qops a b c.
Proof.
  unfold max3. change (ltb qops) with qltb.
  destruct (qltb_cases a b) as [[-> H1]|[-> H1]];
  match goal with |- context [qltb ?x ?y] => destruct (qltb_cases x y) as [[-> H2]|[-> H2]] end; repeat split; lra.
Qed.

(** * One reward step, measured in vectors that are within [d] of the vectors it read *)
Lemma rew_step_res sl (n : nodeQ) a b c (X Y Z : vec) d i :
  rew_step qops sl n = Some (a, b, c) -> 0 <= d ->
  (forall j, Qabs (X j - er_vec sl j) <= d) ->
  (forall j, Qabs (Y j - ermr_vec sl j) <= d) ->
  (forall j, Qabs (Z j - erm_vec sl j) <= d) ->
  (nk n = PR -> nonneg_w (nxt n) /\ sumw (nxt n) <= 1) ->
  X i = a -> Y i = b -> Z i = c ->
  res_at (nk n) (rew n) (nxt n) (reach_vec qops sl) X Y Z d i.
Proof.
  intros H Hd HX HY HZ Hw EX EY EZ. unfold res_at. destruct (nxt n) as [|t0 l0] eqn:El.
  - rewrite (rew_step_empty qops sl n El) in H. injection H as <- <- <-. repeat split; assumption.
  - assert (Hne : nxt n <> []) by (rewrite El; discriminate). rewrite <- El in *. destruct (nk n) eqn:Ek.
    + destruct (rew_step_P1 qops sl n a b c Ek Hne H) as (t & Ht & Ea & Eb & Ec). exists t. split; [exact Ht|].
      rewrite EX, EY, EZ, Ea, Eb, Ec. change (add qops) with qadd. rewrite !qadd_ok.
      specialize (HX (dst t)). specialize (HY (dst t)). specialize (HZ (dst t)).
      unfold er_vec, ermr_vec, erm_vec in *.
      apply Qabs_Qle_condition in HX. apply Qabs_Qle_condition in HY. apply Qabs_Qle_condition in HZ.
      set (u := er (getq sl (dst t))) in *. set (v := ermr (getq sl (dst t))) in *. set (w := erm (getq sl (dst t))) in *.
      set (x := X (dst t)) in *. set (y := Y (dst t)) in *. set (z := Z (dst t)) in *.
      repeat split; apply Qabs_Qle_condition; lra.
    + destruct (rew_step_P2 qops sl n a b c Ek Hne H) as ((t & Ht & Ea & Ec) & Hs). cbn zeta in Hs.
      change (snd (scan_min qops (one qops) (map (fun t => (act t, rnd qops (reach (getq sl (dst t))))) (nxt n))))
        with (p2strats (reach_vec qops sl) (nxt n)) in Hs.
      destruct Hs as [Hs0 Hs1]. split; [|split].
      * exists t. split; [exact Ht|]. rewrite EX, EZ, Ea, Ec. change (add qops) with qadd. rewrite !qadd_ok.
        specialize (HX (dst t)). specialize (HZ (dst t)). unfold er_vec, erm_vec in *.
        apply Qabs_Qle_condition in HX. apply Qabs_Qle_condition in HZ.
        set (u := er (getq sl (dst t))) in *. set (w := erm (getq sl (dst t))) in *.
        set (x := X (dst t)) in *. set (z := Z (dst t)) in *.
        split; apply Qabs_Qle_condition; lra.
      * intros E. rewrite EY. apply Hs0. exact E.
      * intros E. destruct (Hs1 E) as (f0 & Hf0 & Hm & Eb).
        destruct (filter (fun t1 => mem_str (act t1) (p2strats (reach_vec qops sl) (nxt n))) (nxt n)) as [|g0 gl] eqn:Ef.
        { exfalso. assert (Hin : In f0 (filter (fun t1 => mem_str (act t1) (p2strats (reach_vec qops sl) (nxt n))) (nxt n)))
            by (apply filter_In; split; assumption). rewrite Ef in Hin. destruct Hin. }
        exists g0, gl. split; [reflexivity|].
        (* rew_step takes the head of the filtered list as the seed of the running minimum *)
        assert (Eb' : b = qadd (rmin (ermr_vec sl) (p2strats (reach_vec qops sl) (nxt n)) (nxt n) (ermr_vec sl (dst g0))) (rew n)).
        { clear -H Ek El Ef E. unfold rew_step in H. rewrite Ek in H. rewrite El in H, Ef, E |- *. cbn zeta in H.
          change (snd (scan_min qops (one qops) (map (fun t => (act t, rnd qops (reach (getq sl (dst t))))) (t0 :: l0))))
            with (p2strats (reach_vec qops sl) (t0 :: l0)) in H.
          destruct (p2strats (reach_vec qops sl) (t0 :: l0)) as [|s0 ss] eqn:Es; [congruence|].
          rewrite Ef in H.
          destruct (snd (fold_left _ (t0 :: l0) (er (getq sl (dst t0)), None))); [|discriminate].
          injection H as _ Hb _. rewrite <- Hb. reflexivity. }
        rewrite EY, Eb', qadd_ok.
        pose proof (rmin_close Y (ermr_vec sl) (p2strats (reach_vec qops sl) (nxt n)) (nxt n) d HY
                      (Y (dst g0)) (ermr_vec sl (dst g0)) (HY (dst g0))) as G.
        apply Qabs_Qle_condition in G.
        set (u := rmin Y _ _ _) in *. set (v := rmin (ermr_vec sl) _ _ _) in *.
        apply Qabs_Qle_condition. lra.
    + rewrite (rew_step_PR qops sl n Ek Hne) in H. injection H as Ea Eb Ec.
      assert (Ea' : rsum (er_vec sl) (nxt n) (rew n) = a) by exact Ea.
      assert (Eb' : rsum (ermr_vec sl) (nxt n) (rew n) = b) by exact Eb.
      assert (Ec' : rsum (erm_vec sl) (nxt n) 0 = c) by exact Ec.
      clear Ea Eb Ec.
      destruct (Hw eq_refl) as [W1 W2].
      pose proof (psum_close1 X (er_vec sl) (nxt n) d Hd HX W1 W2) as GX.
      pose proof (psum_close1 Y (ermr_vec sl) (nxt n) d Hd HY W1 W2) as GY.
      pose proof (psum_close1 Z (erm_vec sl) (nxt n) d Hd HZ W1 W2) as GZ.
      rewrite EX, EY, EZ, <- Ea', <- Eb', <- Ec', !rsum_psum.
      apply Qabs_Qle_condition in GX. apply Qabs_Qle_condition in GY. apply Qabs_Qle_condition in GZ.
      set (x := psum X (nxt n)) in *. set (y := psum Y (nxt n)) in *. set (z := psum Z (nxt n)) in *.
      set (x' := psum (er_vec sl) (nxt n)) in *. set (y' := psum (ermr_vec sl) (nxt n)) in *. set (z' := psum (erm_vec sl) (nxt n)) in *.
      repeat split; apply Qabs_Qle_condition; lra.
Qed.
