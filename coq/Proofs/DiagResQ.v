(** C14, residual form on exact rationals: when the reward loop stops, the two diagnostics
    ('probabilities under minimal reward' erm, 'rewards under minimal reachability' ermr) satisfy,
    together with the expected rewards and measured in the FINAL vectors, the equations of one reward
    step up to the threshold at every state. Same argument as RewResQ.sweep_rew_residual, with the
    invariant generalised from [er] to the triple (er, ermr, erm). *)
From Coq Require Import String List Arith Bool Lia QArith Qabs Qreduction Lqa.
From CR Require Import Model.Num Model.Outcome Model.Graph Model.Game
     Proofs.Laws Proofs.GraphP Proofs.GameP Proofs.PruneStatesP Proofs.PipelineP Proofs.RewStepP
     Proofs.ReachQ Proofs.ReachQ2 Proofs.C03Q Proofs.RewQ Proofs.RewQ2 Proofs.RewResQ Proofs.RewQ3 Proofs.CondP.
Import ListNotations.
Local Open Scope Q_scope.

(** * The expressions of one reward step as functions of value vectors *)
(* probability-weighted sum of a vector over a transition list, in plain rational arithmetic *)
Definition psum (x : vec) (l : list trans) : Q := fold_right (fun t s => x (dst t) * pr t + s) 0 l.

(* Player 2's 6-digit reachability strategy at a state with transition list [l], from the vector of
   reachability values [rv]: the actions whose rounded successor value is minimal (scan from 1) *)
Definition p2strats (rv : vec) (l : list trans) : list string :=
  snd (scan_min qops (one qops) (map (fun t => (act t, rnd qops (rv (dst t)))) l)).

(* running minimum of a vector over the transitions whose action is in [strats] *)
Definition rmin (x : vec) (strats : list string) (l : list trans) (m : Q) : Q :=
  fold_left (fun m t => if mem_str (act t) strats
                        then let v := x (dst t) in if qltb v m then v else m
                        else m) l m.

Definition ermr_vec (sl : list nodeQ) : vec := fun i => ermr (getq sl i).
Definition erm_vec (sl : list nodeQ) : vec := fun i => erm (getq sl i).

(* The residual statement at state [i]: kind [k], reward [r], transition list [l], reachability
   values [rv]; X, Y, Z are the vectors of expected rewards, rewards under minimal reachability,
   probabilities under minimal reward; [d] is the tolerance. *)
Definition res_at (k : kind) (r : Q) (l : list trans) (rv X Y Z : vec) (d : Q) (i : nat) : Prop :=
  match l with
  | [] => X i = 0 /\ Y i = 0 /\ Z i = 0
  | _ :: _ =>
    match k with
    | PR => Qabs (r + psum X l - X i) <= d /\ Qabs (r + psum Y l - Y i) <= d /\ Qabs (psum Z l - Z i) <= d
    | P1 => exists t, In t l /\
              Qabs (r + X (dst t) - X i) <= d /\ Qabs (r + Y (dst t) - Y i) <= d /\ Qabs (Z (dst t) - Z i) <= d
    | P2 => (exists t, In t l /\ Qabs (r + X (dst t) - X i) <= d /\ Qabs (Z (dst t) - Z i) <= d) /\
            (p2strats rv l = [] -> Y i = 0) /\
            (p2strats rv l <> [] ->
               exists f0 fl, filter (fun t => mem_str (act t) (p2strats rv l)) l = f0 :: fl /\
                             Qabs (r + rmin Y (p2strats rv l) l (Y (dst f0)) - Y i) <= d)
    end
  end.

(** * Extensionality *)
Lemma psum_ext x y l : (forall i, x i = y i) -> psum x l = psum y l.
Proof. intros H. induction l as [|t l IH]; cbn [psum fold_right]; [reflexivity|]. fold (psum x l) (psum y l). rewrite H, IH. reflexivity. Qed.
Lemma rmin_ext x y s l : (forall i, x i = y i) -> forall m, rmin x s l m = rmin y s l m.
Proof. intros H. induction l as [|t l IH]; intros m; cbn [rmin fold_left]; [reflexivity|]. cbn zeta. rewrite H. apply IH. Qed.
Lemma p2strats_ext rv rv' l : (forall i, rv i = rv' i) -> p2strats rv l = p2strats rv' l.
Proof. intros H. unfold p2strats. f_equal. f_equal. apply map_ext. intros t. rewrite H. reflexivity. Qed.

Lemma res_at_ext k r l rv rv' X X' Y Y' Z Z' d i :
  (forall j, rv j = rv' j) -> (forall j, X j = X' j) -> (forall j, Y j = Y' j) -> (forall j, Z j = Z' j) ->
  res_at k r l rv X Y Z d i -> res_at k r l rv' X' Y' Z' d i.
Proof.
  intros Hrv HX HY HZ. unfold res_at. destruct l as [|t0 l0]; [rewrite HX, HY, HZ; exact (fun h => h)|].
  rewrite <- (p2strats_ext rv rv' (t0 :: l0) Hrv).
  rewrite <- (psum_ext X X' (t0 :: l0) HX), <- (psum_ext Y Y' (t0 :: l0) HY), <- (psum_ext Z Z' (t0 :: l0) HZ).
  destruct k.
  - intros (t & Ht & A & B & C). exists t. rewrite <- !HX, <- !HY, <- !HZ. repeat split; assumption.
  - intros ((t & Ht & A & C) & B0 & B1). split; [|split].
    + exists t. rewrite <- !HX, <- !HZ. repeat split; assumption.
    + intros E. rewrite <- HY. apply B0. exact E.
    + intros E. destruct (B1 E) as (f0 & fl & Ef & B). exists f0, fl. split; [exact Ef|].
      rewrite <- (rmin_ext Y Y' _ _ HY), <- !HY. exact B.
  - rewrite <- !HX, <- !HY, <- !HZ. exact (fun h => h).
Qed.

Lemma res_at_weaken k r l rv X Y Z d d' i : d <= d' -> res_at k r l rv X Y Z d i -> res_at k r l rv X Y Z d' i.
Proof.
  intros Hd. unfold res_at. destruct l as [|t0 l0]; [exact (fun h => h)|]. destruct k.
  - intros (t & Ht & A & B & C). exists t. repeat split; try assumption; eapply Qle_trans; eassumption.
  - intros ((t & Ht & A & C) & B0 & B1). split; [|split; [exact B0|]].
    + exists t. repeat split; try assumption; eapply Qle_trans; eassumption.
    + intros E. destruct (B1 E) as (f0 & fl & Ef & B). exists f0, fl. split; [exact Ef|]. eapply Qle_trans; eassumption.
  - intros (A & B & C). repeat split; eapply Qle_trans; eassumption.
Qed.

(** * The step expressions are 1-Lipschitz in the sup norm *)
Lemma rsum_psum x l : forall a, rsum x l a == a + psum x l.
Proof.
  induction l as [|t l IH]; intros a; cbn [rsum psum fold_left fold_right]; [lra|].
  fold (rsum x l (qadd a (qmul (x (dst t)) (pr t)))). fold (psum x l). rewrite IH, qadd_ok, qmul_ok. lra.
Qed.

Lemma psum_close x y l d : 0 <= d -> (forall i, Qabs (x i - y i) <= d) -> nonneg_w l ->
  Qabs (psum x l - psum y l) <= d * sumw l.
Proof.
  intros Hd H. induction l as [|t l IH]; intros Hp; cbn [psum sumw fold_right].
  - rewrite Qabs_pos; lra.
  - fold (psum x l) (psum y l) (sumw l).
    assert (Hp' : nonneg_w l) by (intros u Hu; apply Hp; right; exact Hu).
    specialize (IH Hp'). specialize (H (dst t)). apply Qabs_Qle_condition in H. apply Qabs_Qle_condition in IH.
    assert (0 <= pr t) by (apply Hp; left; reflexivity).
    set (a := psum x l) in *. set (b := psum y l) in *. set (u := x (dst t)) in *. set (v := y (dst t)) in *.
    apply Qabs_Qle_condition. nra.
Qed.

Lemma psum_close1 x y l d : 0 <= d -> (forall i, Qabs (x i - y i) <= d) -> nonneg_w l -> sumw l <= 1 ->
  Qabs (psum x l - psum y l) <= d.
Proof.
  intros Hd H Hp Hs. eapply Qle_trans; [apply (psum_close x y l d); assumption|].
  pose proof (sumw_nonneg l Hp). nra.
Qed.

Lemma rmin_close x y s l d : (forall i, Qabs (x i - y i) <= d) ->
  forall m m', Qabs (m - m') <= d -> Qabs (rmin x s l m - rmin y s l m') <= d.
Proof.
  intros H. induction l as [|t l IH]; intros m m' Hm; cbn [rmin fold_left]; [exact Hm|].
  apply IH. destruct (mem_str (act t) s); [|exact Hm]. cbn zeta.
  specialize (H (dst t)). apply Qabs_Qle_condition in H. apply Qabs_Qle_condition in Hm.
  apply Qabs_Qle_condition.
  destruct (qltb_cases (x (dst t)) m) as [[-> A]|[-> A]], (qltb_cases (y (dst t)) m') as [[-> B]|[-> B]]; lra.
Qed.

Lemma max3_ge_all a b c : a <= max3 qops a b c /\ b <= max3 qops a b c /\ c <= max3 qops a b c.
Proof.
  unfold max3. change (ltb qops) with qltb.
  destruct (qltb_cases a b) as [[-> H1]|[-> H1]];
  match goal with |- context [qltb ?x ?y] => destruct (qltb_cases x y) as [[-> H2]|[-> H2]] end; repeat split; lra.
Qed.

(** * One reward step, measured in vectors that are within [d] of the vectors it read *)
Lemma rew_step_res sl (n : nodeQ) a b c (X Y Z : vec) d i :
  rew_step qops sl n = Some (a, b, c) -> 0 <= d ->
  (forall j, Qabs (X j - er_vec sl j) <= d) ->
  (forall j, Qabs (Y j - ermr_vec sl j) <= d) ->
  (forall j, Qabs (Z j - erm_vec sl j) <= d) ->
  (nk n = PR -> nonneg_w (nxt n) /\ sumw (nxt n) <= 1) ->
  X i = a -> Y i = b -> Z i = c ->
  res_at (nk n) (rew n) (nxt n) (reach_vec qops sl) X Y Z d i.
Proof.
  intros H Hd HX HY HZ Hw EX EY EZ. unfold res_at. destruct (nxt n) as [|t0 l0] eqn:El.
  - rewrite (rew_step_empty qops sl n El) in H. injection H as <- <- <-. repeat split; assumption.
  - assert (Hne : nxt n <> []) by (rewrite El; discriminate). rewrite <- El in *. destruct (nk n) eqn:Ek.
    + destruct (rew_step_P1 qops sl n a b c Ek Hne H) as (t & Ht & Ea & Eb & Ec). exists t. split; [exact Ht|].
      rewrite EX, EY, EZ, Ea, Eb, Ec. change (add qops) with qadd. rewrite !qadd_ok.
      specialize (HX (dst t)). specialize (HY (dst t)). specialize (HZ (dst t)).
      unfold er_vec, ermr_vec, erm_vec in *.
      apply Qabs_Qle_condition in HX. apply Qabs_Qle_condition in HY. apply Qabs_Qle_condition in HZ.
      set (u := er (getq sl (dst t))) in *. set (v := ermr (getq sl (dst t))) in *. set (w := erm (getq sl (dst t))) in *.
      set (x := X (dst t)) in *. set (y := Y (dst t)) in *. set (z := Z (dst t)) in *.
      repeat split; apply Qabs_Qle_condition; lra.
    + destruct (rew_step_P2 qops sl n a b c Ek Hne H) as ((t & Ht & Ea & Ec) & Hs). cbn zeta in Hs.
      change (snd (scan_min qops (one qops) (map (fun t => (act t, rnd qops (reach (getq sl (dst t))))) (nxt n))))
        with (p2strats (reach_vec qops sl) (nxt n)) in Hs.
      destruct Hs as [Hs0 Hs1]. split; [|split].
      * exists t. split; [exact Ht|]. rewrite EX, EZ, Ea, Ec. change (add qops) with qadd. rewrite !qadd_ok.
        specialize (HX (dst t)). specialize (HZ (dst t)). unfold er_vec, erm_vec in *.
        apply Qabs_Qle_condition in HX. apply Qabs_Qle_condition in HZ.
        set (u := er (getq sl (dst t))) in *. set (w := erm (getq sl (dst t))) in *.
        set (x := X (dst t)) in *. set (z := Z (dst t)) in *.
        split; apply Qabs_Qle_condition; lra.
      * intros E. rewrite EY. apply Hs0. exact E.
      * intros E. destruct (Hs1 E) as (f0 & Hf0 & Hm & Eb).
        destruct (filter (fun t1 => mem_str (act t1) (p2strats (reach_vec qops sl) (nxt n))) (nxt n)) as [|g0 gl] eqn:Ef.
        { exfalso. assert (Hin : In f0 (filter (fun t1 => mem_str (act t1) (p2strats (reach_vec qops sl) (nxt n))) (nxt n)))
            by (apply filter_In; split; assumption). rewrite Ef in Hin. destruct Hin. }
        exists g0, gl. split; [reflexivity|].
        (* rew_step takes the head of the filtered list as the seed of the running minimum *)
        assert (Eb' : b = qadd (rmin (ermr_vec sl) (p2strats (reach_vec qops sl) (nxt n)) (nxt n) (ermr_vec sl (dst g0))) (rew n)).
        { clear -H Ek El Ef E. unfold rew_step in H. rewrite Ek in H. rewrite El in H, Ef, E |- *. cbn zeta in H.
          change (snd (scan_min qops (one qops) (map (fun t => (act t, rnd qops (reach (getq sl (dst t))))) (t0 :: l0))))
            with (p2strats (reach_vec qops sl) (t0 :: l0)) in H.
          destruct (p2strats (reach_vec qops sl) (t0 :: l0)) as [|s0 ss] eqn:Es; [congruence|].
          rewrite Ef in H.
          destruct (snd (fold_left _ (t0 :: l0) (er (getq sl (dst t0)), None))); [|discriminate].
          injection H as _ Hb _. rewrite <- Hb. reflexivity. }
        rewrite EY, Eb', qadd_ok.
        pose proof (rmin_close Y (ermr_vec sl) (p2strats (reach_vec qops sl) (nxt n)) (nxt n) d HY
                      (Y (dst g0)) (ermr_vec sl (dst g0)) (HY (dst g0))) as G.
        apply Qabs_Qle_condition in G.
        set (u := rmin Y _ _ _) in *. set (v := rmin (ermr_vec sl) _ _ _) in *.
        apply Qabs_Qle_condition. lra.
    + rewrite (rew_step_PR qops sl n Ek Hne) in H. injection H as Ea Eb Ec.
      assert (Ea' : rsum (er_vec sl) (nxt n) (rew n) = a) by exact Ea.
      assert (Eb' : rsum (ermr_vec sl) (nxt n) (rew n) = b) by exact Eb.
      assert (Ec' : rsum (erm_vec sl) (nxt n) 0 = c) by exact Ec.
      clear Ea Eb Ec.
      destruct (Hw eq_refl) as [W1 W2].
      pose proof (psum_close1 X (er_vec sl) (nxt n) d Hd HX W1 W2) as GX.
      pose proof (psum_close1 Y (ermr_vec sl) (nxt n) d Hd HY W1 W2) as GY.
      pose proof (psum_close1 Z (erm_vec sl) (nxt n) d Hd HZ W1 W2) as GZ.
      rewrite EX, EY, EZ, <- Ea', <- Eb', <- Ec', !rsum_psum.
      apply Qabs_Qle_condition in GX. apply Qabs_Qle_condition in GY. apply Qabs_Qle_condition in GZ.
      set (x := psum X (nxt n)) in *. set (y := psum Y (nxt n)) in *. set (z := psum Z (nxt n)) in *.
      set (x' := psum (er_vec sl) (nxt n)) in *. set (y' := psum (ermr_vec sl) (nxt n)) in *. set (z' := psum (erm_vec sl) (nxt n)) in *.
      repeat split; apply Qabs_Qle_condition; lra.
Qed.

(** * One Gauss-Seidel sweep of the reward loop: invariant on the triple *)
Definition stat4 (sl : list nodeQ) (j : nat) :=
  (nk (getq sl j), rew (getq sl j), nxt (getq sl j), reach (getq sl j)).
Definition res_list (sl sl' : list nodeQ) (d : Q) (i : nat) : Prop :=
  res_at (nk (getq sl i)) (rew (getq sl i)) (nxt (getq sl i)) (reach_vec qops sl)
         (er_vec sl') (ermr_vec sl') (erm_vec sl') d i.

Lemma res_list_static sl0 sl1 sl' d i :
  (forall j, stat4 sl1 j = stat4 sl0 j) -> res_list sl1 sl' d i -> res_list sl0 sl' d i.
Proof.
  intros Hs. unfold res_list. pose proof (Hs i) as S. unfold stat4 in S. injection S as S1 S2 S3 _.
  rewrite S1, S2, S3. apply res_at_ext; try reflexivity.
  intros j. pose proof (Hs j) as S. unfold stat4 in S. injection S as _ _ _ S4. exact S4.
Qed.

Lemma sweep_diag_residual : forall (idxs : list nat) (sl : list nodeQ) md sl' md',
  NoDup idxs -> (forall i, In i idxs -> (i < length sl)%nat) -> prob_ok sl -> 0 <= md ->
  fold_left (fun o i =>
     do st <- o;
     let sl := fst st in let md := snd st in
     let n := getq sl i in
     match rew_step qops sl n with
     | None => Crash "UnboundLocalError"%string
     | Some (a, b, c) =>
       let d := max3 qops (absf qops (sub qops a (er n))) (absf qops (sub qops b (ermr n))) (absf qops (sub qops c (erm n))) in
       Ok (upd sl i (set_rews n a b c), if ltb qops md d then d else md)
     end) idxs (Ok (sl, md)) = Ok (sl', md') ->
  md <= md' /\
  (forall j, stat4 sl' j = stat4 sl j) /\
  (forall j, Qabs (er_vec sl' j - er_vec sl j) <= md' /\ Qabs (ermr_vec sl' j - ermr_vec sl j) <= md' /\
             Qabs (erm_vec sl' j - erm_vec sl j) <= md') /\
  (forall j, ~ In j idxs -> er_vec sl' j = er_vec sl j /\ ermr_vec sl' j = ermr_vec sl j /\ erm_vec sl' j = erm_vec sl j) /\
  (forall i, In i idxs -> res_list sl sl' md' i).
Proof.
  induction idxs as [|i idxs IH]; intros sl md sl' md' Hnd Hr Hp Hmd H; cbn [fold_left] in H.
  - inversion H; subst. split; [lra|]. split; [reflexivity|].
    split; [intros j; repeat split; rewrite Qabs_pos; lra|].
    split; [intros j _; repeat split|intros i []].
  - cbn [bind fst snd] in H. inversion Hnd as [|? ? Hni Hnd']; subst.
    destruct (rew_step qops sl (getq sl i)) as [[[a b] c]|] eqn:E.
    2:{ exfalso. clear -H. induction idxs as [|j idxs IHi]; cbn [fold_left] in H; [discriminate|]. apply IHi. exact H. }
    set (n := getq sl i) in *.
    set (d := max3 qops (absf qops (sub qops a (er n))) (absf qops (sub qops b (ermr n))) (absf qops (sub qops c (erm n)))) in *.
    set (md1 := if ltb qops md d then d else md) in *.
    assert (Hi : (i < length sl)%nat) by (apply Hr; left; reflexivity).
    assert (Hdabc : Qabs (a - er n) <= d /\ Qabs (b - ermr n) <= d /\ Qabs (c - erm n) <= d).
    { subst d. pose proof (max3_ge_all (absf qops (sub qops a (er n))) (absf qops (sub qops b (ermr n)))
                                        (absf qops (sub qops c (erm n)))) as (M1 & M2 & M3).
      change (absf qops (sub qops a (er n))) with (Qabs (qsub a (er n))) in *.
      change (absf qops (sub qops b (ermr n))) with (Qabs (qsub b (ermr n))) in *.
      change (absf qops (sub qops c (erm n))) with (Qabs (qsub c (erm n))) in *.
      rewrite qsub_ok in M1 at 1. rewrite qsub_ok in M2 at 1. rewrite qsub_ok in M3 at 1.
      repeat split; assumption. }
    destruct Hdabc as (Hda & Hdb & Hdc).
    assert (Hd0 : 0 <= d) by (eapply Qle_trans; [apply Qabs_nonneg|exact Hda]).
    assert (Hmd1 : md <= md1 /\ d <= md1).
    { subst md1. change (ltb qops) with qltb. destruct (qltb_cases md d) as [[-> A]|[-> A]]; lra. }
    set (sl1 := upd sl i (set_rews n a b c)) in *.
    assert (Hstat1 : forall j, stat4 sl1 j = stat4 sl j).
    { intros j. unfold stat4, sl1. destruct (Nat.eq_dec i j) as [<-|Hne].
      - rewrite getn_upd_eq by exact Hi. reflexivity.
      - rewrite getn_upd_neq by exact Hne. reflexivity. }
    assert (Hv1 : forall j, er_vec sl1 j = (if Nat.eqb j i then a else er_vec sl j) /\
                            ermr_vec sl1 j = (if Nat.eqb j i then b else ermr_vec sl j) /\
                            erm_vec sl1 j = (if Nat.eqb j i then c else erm_vec sl j)).
    { intros j. unfold er_vec, ermr_vec, erm_vec, sl1. destruct (Nat.eqb_spec j i) as [->|Hne].
      - rewrite getn_upd_eq by exact Hi. repeat split.
      - rewrite getn_upd_neq by congruence. repeat split. }
    assert (Hp1 : prob_ok sl1).
    { intros j. pose proof (Hstat1 j) as S. unfold stat4 in S. injection S as S1 S2 S3 _. rewrite S1, S3. apply Hp. }
    destruct (IH sl1 md1 sl' md' Hnd') as (I1 & I2 & I3 & I4 & I5); try assumption; try lra.
    { intros k Hk. unfold sl1. rewrite upd_length. apply Hr. right. exact Hk. }
    assert (Hstat : forall j, stat4 sl' j = stat4 sl j) by (intros j; rewrite I2; apply Hstat1).
    assert (Hclose : forall j, Qabs (er_vec sl' j - er_vec sl j) <= md' /\ Qabs (ermr_vec sl' j - ermr_vec sl j) <= md' /\
                               Qabs (erm_vec sl' j - erm_vec sl j) <= md').
    { intros j. destruct (Hv1 j) as (V1 & V2 & V3). destruct (Nat.eq_dec j i) as [->|Hne].
      - destruct (I4 i Hni) as (J1 & J2 & J3). rewrite J1, J2, J3, V1, V2, V3, Nat.eqb_refl.
        unfold er_vec, ermr_vec, erm_vec. fold n. repeat split; lra.
      - destruct (I3 j) as (J1 & J2 & J3). rewrite V1 in J1. rewrite V2 in J2. rewrite V3 in J3.
        destruct (Nat.eqb_spec j i); [contradiction|]. repeat split; assumption. }
    split; [lra|]. split; [exact Hstat|]. split; [exact Hclose|]. split.
    + intros j Hj. destruct (I4 j) as (J1 & J2 & J3); [intros Hin; apply Hj; right; exact Hin|].
      destruct (Hv1 j) as (V1 & V2 & V3). rewrite J1, J2, J3, V1, V2, V3.
      destruct (Nat.eqb_spec j i) as [->|_]; [exfalso; apply Hj; left; reflexivity|repeat split].
    + intros k [<-|Hk].
      * (* the state updated first: its values are the step expressions of the vectors at that time;
           every component of every state moved by at most md' since *)
        destruct (I4 i Hni) as (J1 & J2 & J3). destruct (Hv1 i) as (V1 & V2 & V3). rewrite Nat.eqb_refl in V1, V2, V3.
        unfold res_list. fold n. apply (rew_step_res sl n a b c); try assumption.
        -- eapply Qle_trans; [exact Hd0|lra].
        -- intros j. apply (Hclose j).
        -- intros j. apply (Hclose j).
        -- intros j. apply (Hclose j).
        -- intros Hk. apply Hp. exact Hk.
        -- congruence.
        -- congruence.
        -- congruence.
      * apply (res_list_static sl sl1); [exact Hstat1|]. apply I5. exact Hk.
Qed.

(** * The reward loop: when it stops, the step equations of all three quantities hold up to the
    threshold at every state, measured in the final vectors *)
Theorem vi_diag_residual : forall fuel (sl : list nodeQ) i sl' k,
  prob_ok sl -> vi_rew qops fuel sl i = Ok (sl', k) ->
  (forall j, stat4 sl' j = stat4 sl j) /\
  forall s, (s < length sl)%nat -> res_list sl sl' q_thr s.
Proof.
  induction fuel as [|fuel IH]; intros sl i sl' k Hp H; cbn [vi_rew] in H; [discriminate|].
  destruct (sweep_rew qops sl) as [[sl1 d]| | |] eqn:E; cbn [bind] in H; try discriminate.
  cbn [fst snd] in H. unfold sweep_rew in E.
  destruct (sweep_diag_residual (seq 0 (length sl)) sl (zero qops) sl1 d (seq_NoDup _ _)) as (R1 & R2 & R3 & R4 & R5);
    try assumption; try (cbn; lra).
  { intros j Hj. apply in_seq in Hj. lia. }
  change (ltb qops (thr qops) d) with (qltb q_thr d) in H.
  destruct (qltb_cases q_thr d) as [[Eq _]|[Eq Hle]]; rewrite Eq in H.
  - assert (Hp1 : prob_ok sl1).
    { intros j. pose proof (R2 j) as S. unfold stat4 in S. injection S as S1 S2 S3 _. rewrite S1, S3. apply Hp. }
    destruct (IH sl1 _ sl' k Hp1 H) as [J1 J2]. split; [intros j; rewrite J1; apply R2|].
    intros s Hs. assert (Hl : length sl1 = length sl).
    { apply (map_eq_length (erase_rews qops)). apply (sweep_rew_frame qops _ _ _ _ _ E). }
    rewrite <- Hl in Hs. apply (res_list_static sl sl1); [exact R2|]. apply J2. exact Hs.
  - inversion H; subst. split; [exact R2|]. intros s Hs.
    apply (res_at_weaken _ _ _ _ _ _ _ d); [exact Hle|]. apply R5. apply in_seq. lia.
Qed.

(** * End to end *)
(* what the stages between the reachability loop and the reward loop preserve *)
Lemma solve_stage3 fuel (g : gameQ) prune (r : @result Q) sl1 sl3 :
  wf_game qops g -> num_wf1 g ->
  solve_reach_fuel qops fuel g prune = Ok (sl1, r_reachs r, r_it_reach r) ->
  prune_stage qops prune (prune_reachability (r_reachs r) sl1) = Ok sl3 ->
  prob_ok sl3 /\ length sl3 = nstates g /\
  forall i, nk (getq sl3 i) = nk (getq sl1 i) /\ rew (getq sl3 i) = rew (getq sl1 i) /\
            reach (getq sl3 i) = reach (getq sl1 i).
Proof.
  intros Hwf Hnum Ha Hb.
  destruct (reach_static_chain qops _ _ _ _ _ _ Hwf Ha) as [Hlen Hst].
  pose proof Ha as Ha'. apply solve_reach_inv in Ha'. destruct Ha' as (_ & _ & _ & _ & _ & _ & _ & _ & Hrs).
  assert (Hlrs : length (r_reachs r) = length sl1) by (rewrite Hrs; unfold strats_reach; apply map_length).
  assert (H1 : forall i, row_ok (getq sl1 i)).
  { intros i Hk. destruct (Nat.lt_ge_cases i (nstates g)) as [Hi|Hi].
    - destruct (Hst i Hi) as (Hk1 & Hn1 & _). rewrite Hn1. apply Hnum. rewrite <- Hk1. exact Hk.
    - rewrite getn_out by (rewrite Hlen; exact Hi). split; [intros t []|cbn; lra]. }
  set (sl2 := prune_reachability (r_reachs r) sl1) in *.
  assert (H2 : forall i, row_ok (getq sl2 i) /\ nk (getq sl2 i) = nk (getq sl1 i) /\ rew (getq sl2 i) = rew (getq sl1 i) /\
                         reach (getq sl2 i) = reach (getq sl1 i)).
  { intros i. split; [|split; [|split]].
    - subst sl2. destruct (Nat.lt_ge_cases i (length sl1)) as [Hi|Hi].
      + rewrite prune_reachability_nth by assumption. cbn zeta.
        destruct (nk (getq sl1 i)) eqn:Ek; destruct (nth i (r_reachs r) None) eqn:En; cbv iota beta; try apply H1.
        intros Hk; cbn in Hk; congruence.
      + rewrite getn_out by (rewrite prune_reachability_length; assumption). intros _; split; [intros t []|cbn; lra].
    - apply prune_reachability_nk. exact Hlrs.
    - subst sl2. destruct (Nat.lt_ge_cases i (length sl1)) as [Hi|Hi].
      + rewrite prune_reachability_nth by assumption. cbn zeta.
        destruct (nk (getq sl1 i)); destruct (nth i (r_reachs r) None); reflexivity.
      + rewrite !getn_out; [reflexivity|exact Hi|rewrite prune_reachability_length; assumption].
    - apply prune_reachability_reach. exact Hlrs. }
  assert (H3 : forall i, row_ok (getq sl3 i) /\ nk (getq sl3 i) = nk (getq sl1 i) /\ rew (getq sl3 i) = rew (getq sl1 i) /\
                         reach (getq sl3 i) = reach (getq sl1 i)).
  { intros i. destruct (H2 i) as (R2 & K2 & W2 & P2'). unfold prune_stage in Hb. destruct prune.
    - pose proof (prune_paths_node_fields qops sl2 (getq sl2 i)) as Hf. cbn zeta in Hf. destruct Hf as (Hk & Hrw & _).
      pose proof (prune_paths_reach qops sl2 i) as Hre. rewrite prune_paths_getn in Hre.
      destruct (prune_states_only_cleared qops _ _ _ _ i Hb) as [[E0|[E0 _]] _]; rewrite E0, prune_paths_getn.
      + split; [apply prune_paths_node_row_ok; exact R2|]. repeat split; congruence.
      + cbn [nk rew reach set_nxt]. split; [intros _; split; [intros t []|cbn; lra]|]. repeat split; congruence.
    - inversion Hb; subst sl3. split; [exact R2|repeat split; assumption]. }
  split; [|split].
  - intros i Hk. destruct (H3 i) as (R3 & _). destruct (R3 Hk) as [W1 W2]. split; [apply pos_nonneg; exact W1|exact W2].
  - unfold prune_stage in Hb. destruct prune.
    + destruct (prune_states_only_cleared qops _ _ _ _ 0%nat Hb) as [_ Hl]. rewrite Hl, prune_paths_length.
      subst sl2. rewrite prune_reachability_length; assumption.
    + inversion Hb; subst sl3. subst sl2. rewrite prune_reachability_length; assumption.
  - intros i. destruct (H3 i) as (_ & A & B & C). repeat split; assumption.
Qed.

(* For every well-formed game whose probabilistic transitions carry positive probabilities summing to
   at most 1, both modes, when solve returns: at every state the reported expected rewards, 'rewards
   under minimal reachability' and 'probabilities under minimal reward' satisfy the equations of one
   reward step on the conditioned row (r_pruned) up to the threshold. *)
Theorem solve_diag_consistent fuel (g : gameQ) prune r :
  wf_game qops g -> num_wf1 g -> solve_fuel qops fuel g prune = Ok r ->
  forall s, (s < nstates g)%nat ->
    res_at (nth s (g_players g) PR) (nth s (g_rewards g) 0) (nth s (r_pruned r) [])
           (fun i => nth i (r_probs r) 0)
           (fun i => nth i (r_rewards r) 0) (fun i => nth i (r_rew_min_reach r) 0) (fun i => nth i (r_prob_min_rew r) 0)
           q_thr s.
Proof.
  intros Hwf Hnum H s Hs. apply solve_inv in H. destruct H as (sl1 & sl3 & sl4 & it2 & Ha & Hb & Hc & Hr).
  destruct (reach_static_chain qops _ _ _ _ _ _ Hwf Ha) as [Hlen Hst].
  destruct (solve_stage3 fuel g prune r sl1 sl3 Hwf Hnum Ha Hb) as (Hp3 & Hl3 & H3).
  destruct (vi_diag_residual fuel sl3 0 sl4 it2 Hp3 Hc) as [_ Hres].
  specialize (Hres s). rewrite Hl3 in Hres. specialize (Hres Hs). unfold res_list in Hres.
  destruct (H3 s) as (K3 & W3 & _). destruct (Hst s Hs) as (Hk1 & _ & Hr1 & _).
  assert (Hrow : nth s (r_pruned r) [] = nxt (getq sl3 s)).
  { rewrite Hr. cbn [r_pruned]. change (@nil trans) with (nxt (dnode qops)). apply map_nth. }
  rewrite K3, W3, Hk1, Hr1, <- Hrow in Hres. change (zero qops) with (0:Q) in Hres.
  revert Hres. apply res_at_ext.
  - intros j. destruct (H3 j) as (_ & _ & E). unfold reach_vec. rewrite E, Hr. cbn [r_probs].
    change (0:Q) with (reach (dnode qops)). symmetry. apply map_nth.
  - intros j. rewrite Hr. cbn [r_rewards]. change (0:Q) with (er (dnode qops)). symmetry. apply map_nth.
  - intros j. rewrite Hr. cbn [r_rew_min_reach]. change (0:Q) with (ermr (dnode qops)). symmetry. apply map_nth.
  - intros j. rewrite Hr. cbn [r_prob_min_rew]. change (0:Q) with (erm (dnode qops)). symmetry. apply map_nth.
Qed.

(** * The four cases spelled out *)
Section Cases.
Variables (fuel : nat) (g : gameQ) (prune : bool) (r : @result Q).
Hypothesis Hwf : wf_game qops g.
Hypothesis Hnum : num_wf1 g.
Hypothesis Hsolve : solve_fuel qops fuel g prune = Ok r.

(* (a) probabilistic state with a non-empty conditioned row *)
Theorem solve_diag_probabilistic s : (s < nstates g)%nat ->
  let row := nth s (r_pruned r) [] in let rw := nth s (g_rewards g) 0 in
  let x := fun i => nth i (r_rewards r) 0 in
  let y := fun i => nth i (r_rew_min_reach r) 0 in
  let z := fun i => nth i (r_prob_min_rew r) 0 in
  nth s (g_players g) PR = PR -> row <> [] ->
  Qabs (rw + psum x row - x s) <= q_thr /\ Qabs (rw + psum y row - y s) <= q_thr /\ Qabs (psum z row - z s) <= q_thr.
Proof.
  intros Hs row rw x y z Hk Hne. pose proof (solve_diag_consistent fuel g prune r Hwf Hnum Hsolve s Hs) as H.
  unfold res_at in H. rewrite Hk in H. fold row in H. destruct row; [congruence|exact H].
Qed.

(* (b) Player-1 state with a non-empty conditioned row: all three follow ONE successor *)
Theorem solve_diag_player1 s : (s < nstates g)%nat ->
  let row := nth s (r_pruned r) [] in let rw := nth s (g_rewards g) 0 in
  let x := fun i => nth i (r_rewards r) 0 in
  let y := fun i => nth i (r_rew_min_reach r) 0 in
  let z := fun i => nth i (r_prob_min_rew r) 0 in
  nth s (g_players g) PR = P1 -> row <> [] ->
  exists t, In t row /\
    Qabs (rw + x (dst t) - x s) <= q_thr /\ Qabs (rw + y (dst t) - y s) <= q_thr /\ Qabs (z (dst t) - z s) <= q_thr.
Proof.
  intros Hs row rw x y z Hk Hne. pose proof (solve_diag_consistent fuel g prune r Hwf Hnum Hsolve s Hs) as H.
  unfold res_at in H. rewrite Hk in H. fold row in H. destruct row; [congruence|exact H].
Qed.

(* (c) Player-2 state with a non-empty conditioned row: reward and probability diagnostic follow one
   successor; the reward diagnostic is, up to the threshold, reward + the running minimum of the FINAL
   reward-diagnostic vector over the successors whose action is in the state's 6-digit reachability
   strategy, seeded with the first such successor (exactly 0 when that strategy is empty) *)
Theorem solve_diag_player2 s : (s < nstates g)%nat ->
  let row := nth s (r_pruned r) [] in let rw := nth s (g_rewards g) 0 in
  let x := fun i => nth i (r_rewards r) 0 in
  let y := fun i => nth i (r_rew_min_reach r) 0 in
  let z := fun i => nth i (r_prob_min_rew r) 0 in
  let strats := p2strats (fun i => nth i (r_probs r) 0) row in
  nth s (g_players g) PR = P2 -> row <> [] ->
  (exists t, In t row /\ Qabs (rw + x (dst t) - x s) <= q_thr /\ Qabs (z (dst t) - z s) <= q_thr) /\
  (strats = [] -> y s = 0) /\
  (strats <> [] -> exists f0 fl, filter (fun t => mem_str (act t) strats) row = f0 :: fl /\
                                 Qabs (rw + rmin y strats row (y (dst f0)) - y s) <= q_thr).
Proof.
  intros Hs row rw x y z strats Hk Hne. pose proof (solve_diag_consistent fuel g prune r Hwf Hnum Hsolve s Hs) as H.
  unfold res_at in H. rewrite Hk in H. fold row in H. destruct row; [congruence|exact H].
Qed.

(* (d) a state whose conditioned row is empty reports exactly 0 three times *)
Theorem solve_diag_empty s : (s < nstates g)%nat ->
  nth s (r_pruned r) [] = [] ->
  nth s (r_rewards r) 0 = 0 /\ nth s (r_rew_min_reach r) 0 = 0 /\ nth s (r_prob_min_rew r) 0 = 0.
Proof.
  intros Hs He. pose proof (solve_diag_consistent fuel g prune r Hwf Hnum Hsolve s Hs) as H.
  unfold res_at in H. rewrite He in H. exact H.
Qed.

(* the strategy used in (c) is the REPORTED reachability strategy of the state, and the conditioned row
   of a Player-2 state that has not been emptied is its original row (no numeric hypothesis needed) *)
Theorem solve_p2_strategy_is_reported s : (s < nstates g)%nat ->
  nth s (g_players g) PR = P2 -> nth s (r_pruned r) [] <> [] ->
  nth s (r_pruned r) [] = nth s (g_trans g) [] /\
  nth s (r_reachs r) None = Some (p2strats (fun i => nth i (r_probs r) 0) (nth s (r_pruned r) [])).
Proof.
  intros Hs Hk Hne.
  destruct (pruned_is_conditioned qops fuel g prune r Hwf Hsolve) as [_ Hc].
  destruct (Hc s Hs) as [[Hrow|(_ & _ & He)] _]; [|congruence].
  rewrite (cond_rows_nth qops g r prune s Hs) in Hrow. unfold cond_row in Hrow. rewrite Hk in Hrow.
  assert (Hrow' : nth s (r_pruned r) [] = nth s (g_trans g) []) by (destruct prune; exact Hrow).
  split; [exact Hrow'|]. rewrite Hrow'.
  pose proof Hsolve as H. apply solve_inv in H. destruct H as (sl1 & sl3 & sl4 & it2 & Ha & Hb & Hc' & Hr).
  destruct (reach_static_chain qops _ _ _ _ _ _ Hwf Ha) as [Hlen Hst].
  pose proof Ha as Ha'. apply solve_reach_inv in Ha'. destruct Ha' as (_ & _ & _ & _ & _ & _ & _ & _ & Hrs).
  rewrite Hrs, strats_reach_nth. unfold strat_reach. destruct (Hst s Hs) as (Hk1 & Hn1 & _).
  rewrite Hk1, Hk, Hn1. f_equal. unfold p2strats. f_equal. f_equal. apply map_ext. intros t.
  rewrite Hr. cbn [r_probs]. change (0:Q) with (reach (dnode qops)). rewrite map_nth. reflexivity.
Qed.
End Cases.

(** * Non-vacuity: a game with all three kinds of state; with pruning state 4 is emptied *)
(* 0: Player 1, 'a' -> 1, 'b' -> 2; 1: Player 2, 'c' -> 3 (final), 'd' -> 2; 2: coin flip (reward 1) to the
   final state 3 or to the sink 4; 3, 4: self-loops *)
Definition dq_game : gameQ :=
  mkG [0; 0; 1; 0; 0] [P1; P2; PR; PR; PR]
      [[mkT "a"%string 0 1%nat; mkT "b"%string 0 2%nat]; [mkT "c"%string 0 3%nat; mkT "d"%string 0 2%nat];
       [mkT ""%string (1#2) 3%nat; mkT ""%string (1#2) 4%nat]; [mkT ""%string 1 3%nat]; [mkT ""%string 1 4%nat]] [3%nat].

Lemma dq_wf : wf_game qops dq_game.
Proof.
  unfold wf_game, nstates. cbn [dq_game g_trans g_rewards g_players g_finals length].
  split; [reflexivity|]. split; [reflexivity|]. split.
  - intros r Hr. cbn in Hr. destruct Hr as [<-|[<-|[<-|[<-|[<-|[]]]]]]; reflexivity.
  - split; [discriminate|]. split.
    + intros f [<-|[]]. lia.
    + intros tr Htr. cbn in Htr.
      destruct Htr as [<-|[<-|[<-|[<-|[<-|[]]]]]]; (split; [discriminate|]); intros t Ht; cbn in Ht.
      * destruct Ht as [<-|[<-|[]]]; cbn; lia.
      * destruct Ht as [<-|[<-|[]]]; cbn; lia.
      * destruct Ht as [<-|[<-|[]]]; cbn; lia.
      * destruct Ht as [<-|[]]; cbn; lia.
      * destruct Ht as [<-|[]]; cbn; lia.
Qed.

Lemma dq_num_wf1 : num_wf1 dq_game.
Proof.
  intros i Hk.
  destruct i as [|i]; [discriminate Hk|]. destruct i as [|i]; [discriminate Hk|].
  destruct i as [|i]; [split; [intros t [<-|[<-|[]]]; reflexivity|cbn; lra]|].
  destruct i as [|i]; [split; [intros t [<-|[]]; reflexivity|cbn; lra]|].
  destruct i as [|i]; [split; [intros t [<-|[]]; reflexivity|cbn; lra]|].
  cbn [dq_game g_trans nth]. destruct i; (split; [intros t []|cbn; lra]).
Qed.

Lemma dq_solves :
  exists r, solve_fuel qops 100 dq_game true = Ok r /\
    (* state 0: Player 1, state 1: Player 2, state 2: probabilistic, all with non-empty conditioned rows *)
    nth 0 (r_pruned r) [] <> [] /\ nth 1 (r_pruned r) [] <> [] /\ nth 2 (r_pruned r) [] <> [] /\
    (* state 4 has been emptied *)
    nth 4 (r_pruned r) [] = [] /\
    (* Player 2's 6-digit reachability strategy at state 1 is not empty *)
    p2strats (fun i => nth i (r_probs r) 0) (nth 1 (r_pruned r) []) = ["d"%string] /\
    r_rewards r = [1; 0; 1; 0; 0] /\ r_rew_min_reach r = [1; 1; 1; 0; 0] /\ r_prob_min_rew r = [1; 1; 1; 1; 0].
Proof.
  eexists. split; [vm_compute; reflexivity|].
  repeat split; try discriminate.
Qed.
