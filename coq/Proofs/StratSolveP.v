(** C04 / C05 end to end: the strategy lists solve() reports are the arg-max / arg-min filters of the
    rounded REPORTED values over the game's transitions (reachability) resp. the conditioned rows
    (final strategies). Generic in the numbers, under the total-order laws. *)
From Coq Require Import String List Arith Bool Lia.
From CR Require Import Model.Num Model.Outcome Model.Graph Model.Game
     Proofs.GraphP Proofs.GameP Proofs.Laws Proofs.PruneStatesP Proofs.PipelineP.
Import ListNotations.

Section StratSolve.
Context {T : Type}.
Variable K : ops T.
(* all that is needed of the comparisons: the two scans are the arg-max / arg-min filters. Holds under the
   total-order laws (exact rationals: Laws.scan_max_is_argmax) and for binary64 on ALL inputs (Props/C04F.v). *)
Definition scans_are_filters : Prop :=
  forall m0 (l : list (string * T)),
    scan_max K m0 l = (vmax K m0 l, map fst (filter (fun av => eqb K (snd av) (vmax K m0 l)) l)) /\
    scan_min K m0 l = (vmin K m0 l, map fst (filter (fun av => eqb K (snd av) (vmin K m0 l)) l)).
Hypothesis L : scans_are_filters.
Notation game := (@game T).
Notation getn := (getn K).

Definition argmax_list (m0 : T) (vals : list (string * T)) : list string :=
  map fst (filter (fun av => eqb K (snd av) (vmax K m0 vals)) vals).
Definition argmin_list (m0 : T) (vals : list (string * T)) : list string :=
  map fst (filter (fun av => eqb K (snd av) (vmin K m0 vals)) vals).

Definition vals_of (x : list T) (row : list (@trans T)) : list (string * T) :=
  map (fun t => (act t, rnd K (nth (dst t) x (zero K)))) row.

Theorem reach_strategies_of_solve fuel (g : game) prune r i :
  wf_game K g -> solve_fuel K fuel g prune = Ok r -> i < nstates g ->
  nth i (r_reachs r) None =
  match nth i (g_players g) PR with
  | P1 => Some (argmax_list (zero K) (vals_of (r_probs r) (nth i (g_trans g) [])))
  | P2 => Some (argmin_list (one K) (vals_of (r_probs r) (nth i (g_trans g) [])))
  | PR => None
  end.
Proof.
  intros Hwf H Hi. apply solve_inv in H. destruct H as (sl1 & sl3 & sl4 & it2 & Ha & _ & _ & Hr).
  destruct (reach_static_chain K _ _ _ _ _ _ Hwf Ha) as [Hlen Hst]. destruct (Hst i Hi) as (Hk & Hn & _).
  pose proof Ha as Ha'. apply solve_reach_inv in Ha'. destruct Ha' as (_ & _ & _ & _ & _ & _ & _ & _ & Hrs).
  rewrite Hrs, strats_reach_nth. unfold strat_reach. rewrite Hk, Hn.
  assert (Hv : map (fun t => (act t, rnd K (reach (getn sl1 (dst t))))) (nth i (g_trans g) [])
               = vals_of (r_probs r) (nth i (g_trans g) [])).
  { unfold vals_of. apply map_ext. intros t. rewrite Hr. cbn [r_probs].
    change (zero K) with (reach (dnode K)). rewrite map_nth. reflexivity. }
  rewrite Hv. destruct (nth i (g_players g) PR).
  - rewrite (proj1 (L _ _)). reflexivity.
  - rewrite (proj2 (L _ _)). reflexivity.
  - reflexivity.
Qed.

Theorem final_strategies_of_solve fuel (g : game) prune r i :
  wf_game K g -> solve_fuel K fuel g prune = Ok r -> i < nstates g ->
  nth i (r_final r) None =
  let vals := vals_of (r_rewards r) (nth i (r_pruned r) []) in
  match nth i (g_players g) PR with
  | P1 => Some (argmax_list (zero K) vals)
  | P2 => match vals with
          | [] => Some []
          | (_, v0) :: _ => Some (argmin_list v0 vals)
          end
  | PR => None
  end.
Proof.
  intros Hwf H Hi. apply solve_inv in H. destruct H as (sl1 & sl3 & sl4 & it2 & Ha & Hb & Hc & Hr).
  destruct (reach_static_chain K _ _ _ _ _ _ Hwf Ha) as [Hlen Hst]. destruct (Hst i Hi) as (Hk1 & _).
  pose proof Ha as Ha'. apply solve_reach_inv in Ha'. destruct Ha' as (_ & _ & _ & _ & _ & _ & _ & _ & Hrs).
  assert (Hlrs : length (r_reachs r) = length sl1) by (rewrite Hrs; unfold strats_reach; apply map_length).
  (* the kind survives the pipeline *)
  assert (Hk3 : nk (getn sl3 i) = nth i (g_players g) PR).
  { unfold prune_stage in Hb. destruct prune.
    - destruct (prune_states_only_cleared K _ _ _ _ i Hb) as [Hoc _]. rewrite prune_paths_getn in Hoc.
      pose proof (prune_paths_node_fields K (prune_reachability (r_reachs r) sl1) (getn (prune_reachability (r_reachs r) sl1) i)) as Hf.
      cbn zeta in Hf. destruct Hf as (Hk' & _).
      destruct Hoc as [E|[E _]]; rewrite E; cbn [nk set_nxt]; rewrite Hk', prune_reachability_nk by exact Hlrs; exact Hk1.
    - inversion Hb; subst sl3. rewrite prune_reachability_nk by exact Hlrs. exact Hk1. }
  pose proof (vi_rew_frame K _ _ _ _ _ Hc) as Hfr. pose proof (map_eq_getn K _ _ _ i Hfr) as Hs4.
  apply erase_rews_static in Hs4. destruct Hs4 as (Hk4 & _ & Hn4 & _).
  assert (Hfin : nth i (r_final r) None = strat_rew K sl4 (getn sl4 i)) by (rewrite Hr; cbn [r_final]; apply strats_rew_nth).
  rewrite Hfin. unfold strat_rew. rewrite Hk4, Hk3, Hn4. cbn zeta.
  assert (Hrow : nth i (r_pruned r) [] = nxt (getn sl3 i)).
  { rewrite Hr. cbn [r_pruned]. change (@nil (@trans T)) with (nxt (dnode K)). apply map_nth. }
  assert (Hv : map (fun t => (act t, rnd K (er (getn sl4 (dst t))))) (nxt (getn sl3 i))
               = vals_of (r_rewards r) (nth i (r_pruned r) [])).
  { rewrite Hrow. unfold vals_of. apply map_ext. intros t. rewrite Hr. cbn [r_rewards].
    change (zero K) with (er (dnode K)). rewrite map_nth. reflexivity. }
  rewrite Hv. destruct (nth i (g_players g) PR).
  - rewrite (proj1 (L _ _)). reflexivity.
  - destruct (vals_of (r_rewards r) (nth i (r_pruned r) [])) as [|[a v0] l]; [reflexivity|].
    rewrite (proj2 (L _ _)). reflexivity.
  - reflexivity.
Qed.
End StratSolve.

Lemma lawful_scans_are_filters {T} (K : ops T) : lawful_order K -> scans_are_filters K.
Proof. intros L m0 l. split; [apply (scan_max_is_argmax K L)|apply (scan_min_is_argmin K L)]. Qed.

