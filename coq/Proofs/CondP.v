(** C02 (structural half): the node list on which the reward loop runs is the conditioned game the
    property describes, built from the REPORTED strategies and probabilities. Generic in the numbers. *)
From Coq Require Import String List Arith Bool Lia.
From CR Require Import Model.Num Model.Outcome Model.Graph Model.Game
     Proofs.GraphP Proofs.GameP Proofs.PruneStatesP Proofs.PipelineP.
Import ListNotations.

Section Cond.
Context {T : Type}.
Variable K : ops T.
Notation node := (@node T).
Notation trans := (@trans T).
Notation game := (@game T).
Notation getn := (getn K).
Implicit Types sl : list node.
Implicit Types g : game.

(* the row of state i in the conditioned game, as the property states it *)
Definition cond_row (prune : bool) (k : kind) (strat : option (list string)) (alive_t : trans -> bool)
           (row : list trans) : list trans :=
  let row1 := match k, strat with
              | P1, Some best => filter (fun t => mem_str (act t) best) row
              | _, _ => row
              end in
  if prune then
    match k with
    | P1 => filter alive_t row1
    | PR => let al := filter alive_t row1 in
            if length al =? length row1 then row1
            else map (fun t => mkT (act t) (div K (pr t) (surv_total K al)) (dst t)) al
    | P2 => row1
    end
  else row1.

Definition alive_by (probs : list T) (t : trans) : bool := negb (eqb K (nth (dst t) probs (zero K)) (zero K)).

Definition cond_rows g (r : result (T:=T)) (prune : bool) : list (list trans) :=
  map (fun i => cond_row prune (nth i (g_players g) PR) (nth i (r_reachs r) None) (alive_by (r_probs r))
                         (nth i (g_trans g) []))
      (seq 0 (nstates g)).

Lemma cond_rows_nth g r prune i : i < nstates g ->
  nth i (cond_rows g r prune) [] =
  cond_row prune (nth i (g_players g) PR) (nth i (r_reachs r) None) (alive_by (r_probs r)) (nth i (g_trans g) []).
Proof.
  intros Hi. unfold cond_rows.
  set (f := fun i0 => _). rewrite (nth_indep _ [] (f 0)) by (rewrite map_length, seq_length; exact Hi).
  rewrite map_nth, seq_nth by exact Hi. reflexivity.
Qed.

(* states reachable from state 0 along a list of rows *)
Inductive reach0_rows (rows : list (list trans)) : nat -> Prop :=
| r0_init : reach0_rows rows 0
| r0_step u t : reach0_rows rows u -> In t (nth u rows []) -> reach0_rows rows (dst t).

Lemma reach0_rows_sl sl i : reach0_rows (map nxt sl) i -> reach0 K sl i.
Proof.
  induction 1 as [|u t _ IH Ht]; [constructor|]. eapply reach0_step; [exact IH|].
  change (@nil trans) with (nxt (dnode K)) in Ht. rewrite map_nth in Ht. exact Ht.
Qed.

Lemma nth_map_nxt sl i : nth i (map nxt sl) [] = nxt (getn sl i).
Proof. change (@nil trans) with (nxt (dnode K)). apply map_nth. Qed.

Lemma filter_ext_in' {A} (f g : A -> bool) l : (forall x, In x l -> f x = g x) -> filter f l = filter g l.
Proof.
  induction l as [|h t IH]; intros H; [reflexivity|]. cbn. rewrite (H h (or_introl eq_refl)).
  rewrite IH by (intros x Hx; apply H; right; exact Hx). reflexivity.
Qed.

Theorem pruned_is_conditioned fuel g prune r :
  wf_game K g -> solve_fuel K fuel g prune = Ok r ->
  length (r_pruned r) = nstates g /\
  forall i, i < nstates g ->
    (* every state keeps its conditioned row, or (pruning only, never Player 1) has been emptied *)
    (nth i (r_pruned r) [] = nth i (cond_rows g r prune) [] \/
     (prune = true /\ nth i (g_players g) PR <> P1 /\ nth i (r_pruned r) [] = [])) /\
    (* and states reachable from state 0 in the conditioned game are never emptied *)
    (reach0_rows (cond_rows g r prune) i -> nth i (r_pruned r) [] = nth i (cond_rows g r prune) []).
Proof.
  intros Hwf H. apply solve_inv in H. destruct H as (sl1 & sl3 & sl4 & it2 & Ha & Hb & Hc & Hr).
  destruct (reach_static_chain K _ _ _ _ _ _ Hwf Ha) as [Hlen Hst].
  pose proof Ha as Ha'. apply solve_reach_inv in Ha'. destruct Ha' as (_ & _ & _ & _ & _ & _ & _ & _ & Hrs).
  assert (Hlrs : length (r_reachs r) = length sl1) by (rewrite Hrs; unfold strats_reach; apply map_length).
  set (sl2 := prune_reachability (r_reachs r) sl1) in *.
  assert (Hl2 : length sl2 = nstates g) by (subst sl2; rewrite prune_reachability_length; assumption).
  assert (Hprobs : r_probs r = map reach sl1) by (rewrite Hr; reflexivity).
  assert (Halive : forall t, alive K sl2 t = alive_by (r_probs r) t).
  { intros t. unfold alive, alive_by. subst sl2. rewrite prune_reachability_reach by exact Hlrs.
    rewrite Hprobs. change (zero K) with (reach (dnode K)) at 2. rewrite map_nth. reflexivity. }
  (* rows after restriction *)
  assert (Hrow2 : forall i, i < nstates g ->
            nk (getn sl2 i) = nth i (g_players g) PR /\
            nxt (getn sl2 i) = match nth i (g_players g) PR, nth i (r_reachs r) None with
                               | P1, Some best => filter (fun t => mem_str (act t) best) (nth i (g_trans g) [])
                               | _, _ => nth i (g_trans g) []
                               end).
  { intros i Hi. destruct (Hst i Hi) as (Hk & Hn & _). split.
    - subst sl2. rewrite prune_reachability_nk by exact Hlrs. exact Hk.
    - subst sl2. rewrite prune_reachability_nth by (try exact Hlrs; lia). cbn zeta. rewrite Hk.
      destruct (nth i (g_players g) PR); destruct (nth i (r_reachs r) None); cbn; rewrite Hn; reflexivity. }
  (* rows before prune_states *)
  set (slp := if prune then prune_paths K sl2 else sl2).
  assert (Hrowp : forall i, i < nstates g -> nxt (getn slp i) = nth i (cond_rows g r prune) []).
  { intros i Hi. rewrite cond_rows_nth by exact Hi. destruct (Hrow2 i Hi) as [Hk Hn]. unfold cond_row, slp.
    destruct prune.
    - rewrite prune_paths_getn. destruct (nth i (g_players g) PR) eqn:Ek.
      + rewrite prune_paths_node_P1 by exact Hk. rewrite Hn. cbv iota. apply filter_ext_in'. intros t _. apply Halive.
      + rewrite prune_paths_node_P2 by exact Hk. rewrite Hn. reflexivity.
      + rewrite prune_paths_node_PR by exact Hk. cbn zeta. rewrite Hn. cbv iota.
        rewrite (filter_ext_in' (alive K sl2) (alive_by (r_probs r))) by (intros t _; apply Halive).
        reflexivity.
    - rewrite Hn. reflexivity. }
  assert (Hlenp : length slp = nstates g) by (unfold slp; destruct prune; [rewrite prune_paths_length|]; exact Hl2).
  assert (Hpr : r_pruned r = map nxt sl3) by (rewrite Hr; reflexivity). rewrite Hpr.
  unfold prune_stage in Hb. fold sl2 in Hb.
  destruct prune.
  - fold slp in Hb. change (prune_paths K sl2) with slp in Hb.
    destruct (prune_states_only_cleared K _ _ _ _ 0 Hb) as [_ Hl3]. split; [rewrite map_length, Hl3; exact Hlenp|].
    intros i Hi. rewrite nth_map_nxt.
    rewrite <- (Hrowp i Hi). split.
    + destruct (prune_states_only_cleared K _ _ _ _ i Hb) as [[E|[E Hne]] _].
      * left. rewrite E. reflexivity.
      * right. split; [reflexivity|]. split; [|rewrite E; reflexivity].
        unfold slp in Hne. rewrite prune_paths_getn in Hne.
        pose proof (prune_paths_node_fields K sl2 (getn sl2 i)) as Hf. cbn zeta in Hf. destruct Hf as (Hk' & _).
        rewrite Hk' in Hne. rewrite (proj1 (Hrow2 i Hi)) in Hne. exact Hne.
    + intros Hr0.
      assert (Hr0' : reach0 K slp i).
      { apply reach0_rows_sl.
        assert (Hmap : map nxt slp = cond_rows g r true) ; [|rewrite Hmap; exact Hr0].
        apply (nth_ext _ _ [] []).
        - rewrite map_length, Hlenp. unfold cond_rows. rewrite map_length, seq_length. reflexivity.
        - intros k Hk. rewrite map_length, Hlenp in Hk. rewrite nth_map_nxt. apply Hrowp. exact Hk. }
      destruct (prune_states_frame K _ _ _ _ i Hb Hr0') as [E _]. rewrite E. reflexivity.
  - inversion Hb; subst sl3. split; [rewrite map_length; exact Hl2|].
    intros i Hi. rewrite nth_map_nxt.
    change sl2 with slp. rewrite (Hrowp i Hi). split; [left; reflexivity|intros _; reflexivity].
Qed.
End Cond.
