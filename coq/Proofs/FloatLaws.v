(** The binary64 instance [fops] satisfies the order laws on every float that is not a NaN
    (all finite floats, both zeros, both infinities).

    ROUTE (part 1, the laws): directly from Coq's own specification of the primitive comparisons,
    [FloatAxioms.ltb_spec : (x <? y) = SFltb (Prim2SF x) (Prim2SF y)] and [FloatAxioms.eqb_spec],
    and the definition of [SpecFloat.SFcompare].  [SFcompare] on non-NaN arguments is shown to be the
    lexicographic comparison of an integer triple [rk] (class, signed exponent, signed mantissa); the
    five laws are then facts about the lexicographic order on Z*Z*Z.  No real numbers, no Flocq, no
    validity of the decoded float is needed: the only axioms are [ltb_spec] and [eqb_spec] (plus the
    primitive types/operations themselves).

    Part 2 (meaning of the order; uses Flocq and the real-number axioms): on FINITE floats the two
    comparisons are the comparisons of the real values [B2R (Prim2B x)]
    (Flocq [IEEE754.PrimFloat.ltb_equiv/eqb_equiv] + [BinarySingleNaN.Bltb_correct/Beqb_correct]). *)
From Coq Require Import ZArith Lia Bool Floats SpecFloat.
From CR Require Import Model.Num Proofs.LawsOn.

(** * The predicate *)
(* "x is not a NaN";  PrimFloat.is_nan x = negb (x =? x) *)
Definition not_nan (x : float) : Prop := PrimFloat.is_nan x = false.

Lemma not_nan_iff_eqb x : not_nan x <-> PrimFloat.eqb x x = true.
Proof. unfold not_nan, PrimFloat.is_nan. destruct (PrimFloat.eqb x x); cbn; split; congruence. Qed.
Lemma finite_not_nan x : PrimFloat.is_finite x = true -> not_nan x.
Proof. unfold not_nan, PrimFloat.is_finite. destruct (PrimFloat.is_nan x); cbn; congruence. Qed.
Lemma infinite_not_nan x : PrimFloat.is_infinity x = true -> not_nan x.
Proof.
  unfold not_nan, PrimFloat.is_infinity, PrimFloat.is_nan. intros H.
  rewrite eqb_spec in H. rewrite eqb_spec. rewrite abs_spec in H.
  destruct (Prim2SF x) as [s|s| |s m e]; cbn in *; try discriminate.
  destruct s; reflexivity.
Qed.

(** * SFcompare is a lexicographic comparison of integer triples *)
Local Open Scope Z_scope.

Definition lex3 (a b : Z * Z * Z) : comparison :=
  match a, b with
  | (a1, a2, a3), (b1, b2, b3) =>
    match a1 ?= b1 with
    | Eq => match a2 ?= b2 with Eq => a3 ?= b3 | c => c end
    | c => c
    end
  end.

Lemma lex3_refl a : lex3 a a = Eq.
Proof. destruct a as [[a1 a2] a3]. cbn. rewrite !Z.compare_refl. reflexivity. Qed.
Lemma lex3_eq a b : lex3 a b = Eq -> a = b.
Proof.
  destruct a as [[a1 a2] a3], b as [[b1 b2] b3]. cbn.
  destruct (Z.compare_spec a1 b1); try discriminate.
  destruct (Z.compare_spec a2 b2); try discriminate.
  destruct (Z.compare_spec a3 b3); try discriminate. intros _. subst. reflexivity.
Qed.
Lemma lex3_lt_trans a b c : lex3 a b = Lt -> lex3 b c = Lt -> lex3 a c = Lt.
Proof.
  destruct a as [[a1 a2] a3], b as [[b1 b2] b3], c as [[c1 c2] c3]. cbn.
  destruct (Z.compare_spec a1 b1); try discriminate;
  destruct (Z.compare_spec b1 c1); try discriminate;
  destruct (Z.compare_spec a1 c1); try lia; try reflexivity;
  destruct (Z.compare_spec a2 b2); try discriminate;
  destruct (Z.compare_spec b2 c2); try discriminate;
  destruct (Z.compare_spec a2 c2); try lia; try reflexivity;
  destruct (Z.compare_spec a3 b3); try discriminate;
  destruct (Z.compare_spec b3 c3); try discriminate;
  destruct (Z.compare_spec a3 c3); try lia; try reflexivity.
Qed.
Lemma lex3_total a b : lex3 a b = Lt \/ lex3 a b = Eq \/ lex3 b a = Lt.
Proof.
  destruct a as [[a1 a2] a3], b as [[b1 b2] b3]. cbn.
  destruct (Z.compare_spec a1 b1); destruct (Z.compare_spec b1 a1); try lia; auto.
  destruct (Z.compare_spec a2 b2); destruct (Z.compare_spec b2 a2); try lia; auto.
  destruct (Z.compare_spec a3 b3); destruct (Z.compare_spec b3 a3); try lia; auto.
Qed.

(* class (-inf, negative, zero, positive, +inf), then exponent and mantissa, negated for negatives *)
Definition rk (f : spec_float) : Z * Z * Z :=
  match f with
  | S754_nan => (0, 0, 0)            (* never used *)
  | S754_zero _ => (0, 0, 0)
  | S754_infinity true => (-2, 0, 0)
  | S754_infinity false => (2, 0, 0)
  | S754_finite true m e => (-1, - e, Zneg m)
  | S754_finite false m e => (1, e, Zpos m)
  end.

Lemma SFcompare_rk x y : x <> S754_nan -> y <> S754_nan -> SFcompare x y = Some (lex3 (rk x) (rk y)).
Proof.
  intros Hx Hy.
  destruct x as [sx|sx| |sx mx ex]; [| |congruence|];
  (destruct y as [sy|sy| |sy my ey]; [| |congruence|]);
  try destruct sx; try destruct sy; try reflexivity.
  (* left: both negative finite (both positive finite is by computation) *)
  cbn [SFcompare rk lex3]. rewrite Z.compare_refl. f_equal.
  rewrite Z.compare_opp. rewrite (Z.compare_antisym ex ey).
  destruct (ex ?= ey); reflexivity.
Qed.

Local Close Scope Z_scope.

(** * The primitive comparisons on non-NaN floats *)
Definition frk (x : float) : Z * Z * Z := rk (Prim2SF x).

Lemma not_nan_SF x : not_nan x -> Prim2SF x <> S754_nan.
Proof.
  unfold not_nan, PrimFloat.is_nan. rewrite eqb_spec. intros H E. rewrite E in H. discriminate.
Qed.
Lemma SF_not_nan x : Prim2SF x <> S754_nan -> not_nan x.
Proof.
  intros H. unfold not_nan, PrimFloat.is_nan. rewrite eqb_spec. unfold SFeqb.
  rewrite (SFcompare_rk _ _ H H), lex3_refl. reflexivity.
Qed.

Lemma fltb_lex x y : not_nan x -> not_nan y ->
  PrimFloat.ltb x y = match lex3 (frk x) (frk y) with Lt => true | _ => false end.
Proof.
  intros Hx Hy. rewrite ltb_spec. unfold SFltb.
  rewrite (SFcompare_rk _ _ (not_nan_SF x Hx) (not_nan_SF y Hy)). reflexivity.
Qed.
Lemma feqb_lex x y : not_nan x -> not_nan y ->
  PrimFloat.eqb x y = match lex3 (frk x) (frk y) with Eq => true | _ => false end.
Proof.
  intros Hx Hy. rewrite eqb_spec. unfold SFeqb.
  rewrite (SFcompare_rk _ _ (not_nan_SF x Hx) (not_nan_SF y Hy)). reflexivity.
Qed.

Lemma fltb_true x y : not_nan x -> not_nan y -> (PrimFloat.ltb x y = true <-> lex3 (frk x) (frk y) = Lt).
Proof. intros Hx Hy. rewrite (fltb_lex x y Hx Hy). destruct (lex3 _ _); split; congruence. Qed.
Lemma feqb_true x y : not_nan x -> not_nan y -> (PrimFloat.eqb x y = true <-> frk x = frk y).
Proof.
  intros Hx Hy. rewrite (feqb_lex x y Hx Hy). split.
  - destruct (lex3 _ _) eqn:E; try discriminate. intros _. apply lex3_eq, E.
  - intros ->. rewrite lex3_refl. reflexivity.
Qed.

(** * The laws *)
Theorem fops_lawful_on_not_nan : lawful_order_on fops not_nan.
Proof.
  split; cbn [ltb eqb fops].
  - intros x Hx. rewrite (fltb_lex x x Hx Hx), lex3_refl. reflexivity.
  - intros x y z Hx Hy Hz H1 H2.
    apply (fltb_true x y Hx Hy) in H1. apply (fltb_true y z Hy Hz) in H2.
    apply (fltb_true x z Hx Hz). eapply lex3_lt_trans; eassumption.
  - intros x Hx. apply (feqb_true x x Hx Hx). reflexivity.
  - intros x y Hx Hy H z Hz. apply (feqb_true x y Hx Hy) in H.
    rewrite (feqb_lex x z Hx Hz), (feqb_lex y z Hy Hz), (feqb_lex z x Hz Hx), (feqb_lex z y Hz Hy),
            (fltb_lex x z Hx Hz), (fltb_lex y z Hy Hz), (fltb_lex z x Hz Hx), (fltb_lex z y Hz Hy).
    rewrite H. repeat split.
  - intros x y Hx Hy.
    rewrite (fltb_lex x y Hx Hy), (feqb_lex x y Hx Hy), (fltb_lex y x Hy Hx).
    destruct (lex3_total (frk x) (frk y)) as [H|[H|H]]; rewrite H; auto.
Qed.

(** * Every comparison with a NaN is false: NaNs are inert for the scans *)
Lemma is_nan_SF x : PrimFloat.is_nan x = true -> Prim2SF x = S754_nan.
Proof.
  intros H. destruct (Prim2SF x) eqn:E; try reflexivity;
  (assert (N : not_nan x) by (apply SF_not_nan; rewrite E; discriminate));
  unfold not_nan in N; congruence.
Qed.
Lemma SFcompare_nan_l y : SFcompare S754_nan y = None.
Proof. reflexivity. Qed.
Lemma SFcompare_nan_r y : SFcompare y S754_nan = None.
Proof. destruct y; reflexivity. Qed.

Definition not_nanb (x : float) : bool := negb (PrimFloat.is_nan x).

Theorem fops_nan_inert : inert_outside fops not_nan not_nanb.
Proof.
  split.
  - intros x. unfold not_nanb, not_nan. destruct (PrimFloat.is_nan x); cbn; split; congruence.
  - intros x y H. unfold not_nanb in H. apply negb_false_iff in H. apply is_nan_SF in H.
    cbn [ltb eqb fops]. rewrite !ltb_spec, !eqb_spec. unfold SFltb, SFeqb.
    rewrite H, SFcompare_nan_l, SFcompare_nan_r. repeat split.
Qed.

(* NaN really is excluded for a reason: the laws fail on it *)
Lemma nan_breaks_refl : PrimFloat.eqb f_nan f_nan = false.
Proof. reflexivity. Qed.
Lemma nan_is_nan : ~ not_nan f_nan.
Proof. unfold not_nan. cbv. discriminate. Qed.

(** * Meaning of the order on finite floats: the order of the real values (Flocq) *)
From Coq Require Import Reals.
From Flocq Require Import Core.Raux IEEE754.BinarySingleNaN IEEE754.PrimFloat.

(* the real number a finite binary64 float denotes *)
Definition f2R (x : float) : R := B2R (Prim2B x).

Lemma fltb_real x y : PrimFloat.is_finite x = true -> PrimFloat.is_finite y = true ->
  PrimFloat.ltb x y = Rlt_bool (f2R x) (f2R y).
Proof.
  intros Hx Hy. rewrite ltb_equiv. apply Bltb_correct; rewrite <- is_finite_equiv; assumption.
Qed.
Lemma feqb_real x y : PrimFloat.is_finite x = true -> PrimFloat.is_finite y = true ->
  PrimFloat.eqb x y = Req_bool (f2R x) (f2R y).
Proof.
  intros Hx Hy. rewrite eqb_equiv. apply Beqb_correct; rewrite <- is_finite_equiv; assumption.
Qed.
Lemma fltb_real_iff x y : PrimFloat.is_finite x = true -> PrimFloat.is_finite y = true ->
  (PrimFloat.ltb x y = true <-> (f2R x < f2R y)%R).
Proof.
  intros Hx Hy. rewrite (fltb_real x y Hx Hy). split.
  - intros H. destruct (Rlt_bool_spec (f2R x) (f2R y)); [assumption|discriminate].
  - intros H. apply Rlt_bool_true, H.
Qed.
Lemma feqb_real_iff x y : PrimFloat.is_finite x = true -> PrimFloat.is_finite y = true ->
  (PrimFloat.eqb x y = true <-> f2R x = f2R y).
Proof.
  intros Hx Hy. rewrite (feqb_real x y Hx Hy). split.
  - intros H. destruct (Req_bool_spec (f2R x) (f2R y)); [assumption|discriminate].
  - intros H. apply Req_bool_true, H.
Qed.
