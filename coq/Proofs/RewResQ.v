(** C02, numeric half in its Bellman-consistency form (exact rationals): when the reward loop stops,
    the reported expected rewards satisfy the reward equations of the game the loop ran on (the
    conditioned game) up to the threshold, at every state. *)
From Coq Require Import String List Arith Bool Lia QArith Qabs Qreduction Lqa.
From CR Require Import Model.Num Model.Outcome Model.Graph Model.Game
     Proofs.Laws Proofs.GraphP Proofs.GameP Proofs.PipelineP Proofs.RewStepP
     Proofs.ReachQ Proofs.ReachQ2 Proofs.RewQ.
Import ListNotations.
Local Open Scope Q_scope.

(** * The reward equation of one state as a function of the vector of expected rewards *)
Definition gmax (x : vec) (l : list trans) (m : Q) : Q :=
  fold_left (fun m t => let v := x (dst t) in if qleb m v then v else m) l m.
Definition gmin (x : vec) (l : list trans) (m : Q) : Q :=
  fold_left (fun m t => let v := x (dst t) in if qleb v m then v else m) l m.
Definition rsum (x : vec) (l : list trans) (acc : Q) : Q :=
  fold_left (fun v t => qadd v (qmul (x (dst t)) (pr t))) l acc.

Definition psi (x : vec) (k : kind) (r : Q) (l : list trans) : Q :=
  match l with
  | [] => 0
  | first :: _ =>
    match k with
    | PR => rsum x l r
    | P1 => qadd (gmax x l 0) r
    | P2 => qadd (gmin x l (x (dst first))) r
    end
  end.

Lemma gmax_close x y l d : (forall i, Qabs (x i - y i) <= d) ->
  forall m m', Qabs (m - m') <= d -> Qabs (gmax x l m - gmax y l m') <= d.
Proof.
  intros H. induction l as [|t l IH]; intros m m' Hm; cbn [gmax fold_left]; [exact Hm|].
  apply IH. cbn zeta. specialize (H (dst t)). apply Qabs_Qle_condition in H. apply Qabs_Qle_condition in Hm.
  apply Qabs_Qle_condition.
  destruct (qleb_cases m (x (dst t))) as [[-> A]|[-> A]], (qleb_cases m' (y (dst t))) as [[-> B]|[-> B]]; lra.
Qed.
Lemma gmin_close x y l d : (forall i, Qabs (x i - y i) <= d) ->
  forall m m', Qabs (m - m') <= d -> Qabs (gmin x l m - gmin y l m') <= d.
Proof.
  intros H. induction l as [|t l IH]; intros m m' Hm; cbn [gmin fold_left]; [exact Hm|].
  apply IH. cbn zeta. specialize (H (dst t)). apply Qabs_Qle_condition in H. apply Qabs_Qle_condition in Hm.
  apply Qabs_Qle_condition.
  destruct (qleb_cases (x (dst t)) m) as [[-> A]|[-> A]], (qleb_cases (y (dst t)) m') as [[-> B]|[-> B]]; lra.
Qed.
Lemma rsum_close x y l d : 0 <= d -> (forall i, Qabs (x i - y i) <= d) -> nonneg_w l ->
  forall a b, Qabs (rsum x l a - rsum y l b) <= Qabs (a - b) + d * sumw l.
Proof.
  intros Hd H. induction l as [|t l IH]; intros Hp a b; cbn [rsum fold_left sumw fold_right]; [lra|].
  assert (Hp' : nonneg_w l) by (intros u Hu; apply Hp; right; exact Hu).
  specialize (IH Hp' (qadd a (qmul (x (dst t)) (pr t))) (qadd b (qmul (y (dst t)) (pr t)))).
  unfold rsum in *. fold (sumw l). eapply Qle_trans; [exact IH|].
  pose proof (qadd_ok a (qmul (x (dst t)) (pr t))) as E1. pose proof (qadd_ok b (qmul (y (dst t)) (pr t))) as E2.
  pose proof (qmul_ok (x (dst t)) (pr t)) as E3. pose proof (qmul_ok (y (dst t)) (pr t)) as E4.
  rewrite E1, E2, E3, E4. specialize (H (dst t)). apply Qabs_Qle_condition in H.
  assert (0 <= pr t) by (apply Hp; left; reflexivity).
  assert (Hk : Qabs (a + x (dst t) * pr t - (b + y (dst t) * pr t)) <= Qabs (a - b) + d * pr t).
  { apply Qabs_Qle_condition. pose proof (Qle_Qabs (a - b)). pose proof (Qle_Qabs (- (a - b))).
    rewrite Qabs_opp in H2. nra. }
  lra.
Qed.

Lemma psi_close x y k r l d : 0 <= d -> (forall i, Qabs (x i - y i) <= d) ->
  (k = PR -> nonneg_w l /\ sumw l <= 1) -> Qabs (psi x k r l - psi y k r l) <= d.
Proof.
  intros Hd H Hw. unfold psi. destruct l as [|first rest]; [rewrite Qabs_pos; lra|].
  destruct k.
  - rewrite !qadd_ok. pose proof (gmax_close x y (first :: rest) d H 0 0) as G.
    assert (Qabs (0 - 0) <= d) by (rewrite Qabs_pos; lra). specialize (G H0).
    apply Qabs_Qle_condition in G. apply Qabs_Qle_condition. lra.
  - rewrite !qadd_ok. pose proof (gmin_close x y (first :: rest) d H (x (dst first)) (y (dst first)) (H (dst first))) as G.
    apply Qabs_Qle_condition in G. apply Qabs_Qle_condition. lra.
  - destruct (Hw eq_refl) as [W1 W2].
    pose proof (rsum_close x y (first :: rest) d Hd H W1 r r) as G.
    assert (E0 : Qabs (r - r) == 0) by (rewrite Qabs_pos; lra). rewrite E0 in G.
    eapply Qle_trans; [exact G|]. nra.
Qed.

(** * The first component of rew_step is psi of the er-vector *)
Definition er_vec (sl : list nodeQ) : vec := fun i => er (getq sl i).

Lemma p1_fold_fst sl l : forall m o, fst (p1_fold qops sl l (m, o)) = gmax (er_vec sl) l m.
Proof.
  induction l as [|t l IH]; intros m o; cbn [p1_fold gmax fold_left]; [reflexivity|].
  cbn zeta. cbn [fst]. change (leb qops) with qleb. unfold er_vec. cbn beta.
  destruct (qleb m (er (getq sl (dst t)))); apply IH.
Qed.
Lemma p2_fold_fst sl l : forall m o, fst (p2_fold qops sl l (m, o)) = gmin (er_vec sl) l m.
Proof.
  induction l as [|t l IH]; intros m o; cbn [p2_fold gmin fold_left]; [reflexivity|].
  cbn zeta. cbn [fst]. change (leb qops) with qleb. unfold er_vec. cbn beta.
  destruct (qleb (er (getq sl (dst t))) m); apply IH.
Qed.

Lemma rew_step_fst sl n a b c :
  rew_step qops sl n = Some (a, b, c) -> a = psi (er_vec sl) (nk n) (rew n) (nxt n).
Proof.
  unfold rew_step, psi. destruct (nxt n) as [|first rest] eqn:El; [intros H; inversion H; reflexivity|].
  destruct (nk n).
  - fold (p1_fold qops sl (first :: rest) (zero qops, None)). change (zero qops) with (0:Q).
    pose proof (p1_fold_fst sl (first :: rest) 0 None) as Hf.
    destruct (p1_fold qops sl (first :: rest) (0, None)) as [m [t|]]; cbn [fst snd] in *; [|discriminate].
    intros H. injection H as Ha Hb Hc. rewrite <- Ha, <- Hf. reflexivity.
  - cbn zeta. fold (p2_fold qops sl (first :: rest) (er (getq sl (dst first)), None)).
    pose proof (p2_fold_fst sl (first :: rest) (er (getq sl (dst first))) None) as Hf.
    destruct (p2_fold qops sl (first :: rest) (er (getq sl (dst first)), None)) as [m [t|]]; cbn [fst snd] in *;
      change (er (getq sl (dst first))) with (er_vec sl (dst first)) in Hf.
    + match goal with |- context [match ?s with [] => _ | _ :: _ => _ end] => destruct s end.
      * intros H. injection H as Ha Hb Hc. rewrite <- Ha, <- Hf. reflexivity.
      * destruct (filter _ _); [discriminate|]. intros H. injection H as Ha Hb Hc. rewrite <- Ha, <- Hf. reflexivity.
    + match goal with |- context [match ?s with [] => _ | _ :: _ => _ end] => destruct s end; [discriminate|].
      destruct (filter _ _); discriminate.
  - intros H. inversion H; subst. reflexivity.
Qed.

(** * One Gauss-Seidel sweep of the reward loop *)
Definition stat (sl : list nodeQ) (i : nat) := (nk (getq sl i), rew (getq sl i), nxt (getq sl i)).
Definition psi_at (sl : list nodeQ) (x : vec) (i : nat) : Q :=
  psi x (nk (getq sl i)) (rew (getq sl i)) (nxt (getq sl i)).
Definition prob_ok (sl : list nodeQ) : Prop :=
  forall i, nk (getq sl i) = PR -> nonneg_w (nxt (getq sl i)) /\ sumw (nxt (getq sl i)) <= 1.

Lemma max3_ge_first a b c : a <= max3 qops a b c.
Proof.
  unfold max3. change (ltb qops) with qltb.
  destruct (qltb_cases a b) as [[-> H1]|[-> H1]];
  match goal with |- context [qltb ?x ?y] => destruct (qltb_cases x y) as [[-> H2]|[-> H2]] end; lra.
Qed.

Lemma sweep_rew_residual : forall (idxs : list nat) (sl : list nodeQ) md sl' md',
  NoDup idxs -> (forall i, In i idxs -> (i < length sl)%nat) -> prob_ok sl -> 0 <= md ->
  fold_left (fun o i =>
     do st <- o;
     let sl := fst st in let md := snd st in
     let n := getq sl i in
     match rew_step qops sl n with
     | None => Crash "UnboundLocalError"%string
     | Some (a, b, c) =>
       let d := max3 qops (absf qops (sub qops a (er n))) (absf qops (sub qops b (ermr n))) (absf qops (sub qops c (erm n))) in
       Ok (upd sl i (set_rews n a b c), if ltb qops md d then d else md)
     end) idxs (Ok (sl, md)) = Ok (sl', md') ->
  md <= md' /\
  (forall j, stat sl' j = stat sl j) /\
  (forall j, Qabs (er_vec sl' j - er_vec sl j) <= md') /\
  (forall j, ~ In j idxs -> er_vec sl' j = er_vec sl j) /\
  (forall i, In i idxs -> Qabs (psi_at sl (er_vec sl') i - er_vec sl' i) <= md').
Proof.
  induction idxs as [|i idxs IH]; intros sl md sl' md' Hnd Hr Hp Hmd H; cbn [fold_left] in H.
  - inversion H; subst. split; [lra|]. split; [reflexivity|]. split; [intros j; rewrite Qabs_pos; lra|].
    split; [reflexivity|intros i []].
  - cbn [bind fst snd] in H. inversion Hnd as [|? ? Hni Hnd']; subst.
    destruct (rew_step qops sl (getq sl i)) as [[[a b] c]|] eqn:E.
    2:{ exfalso. clear -H. induction idxs as [|j idxs IHi]; cbn [fold_left] in H; [discriminate|]. apply IHi. exact H. }
    set (n := getq sl i) in *.
    set (d := max3 qops (absf qops (sub qops a (er n))) (absf qops (sub qops b (ermr n))) (absf qops (sub qops c (erm n)))) in *.
    set (md1 := if ltb qops md d then d else md) in *.
    assert (Hi : (i < length sl)%nat) by (apply Hr; left; reflexivity).
    assert (Hda : Qabs (a - er n) <= d).
    { subst d. eapply Qle_trans; [|apply max3_ge_first].
      change (absf qops (sub qops a (er n))) with (Qabs (qsub a (er n))). rewrite qsub_ok. apply Qle_refl. }
    assert (Hd0 : 0 <= d) by (eapply Qle_trans; [apply Qabs_nonneg|exact Hda]).
    assert (Hmd1 : md <= md1 /\ d <= md1).
    { subst md1. change (ltb qops) with qltb. destruct (qltb_cases md d) as [[-> A]|[-> A]]; lra. }
    set (sl1 := upd sl i (set_rews n a b c)) in *.
    assert (Hstat1 : forall j, stat sl1 j = stat sl j).
    { intros j. unfold stat, sl1. destruct (Nat.eq_dec i j) as [<-|Hne].
      - rewrite getn_upd_eq by exact Hi. reflexivity.
      - rewrite getn_upd_neq by exact Hne. reflexivity. }
    assert (Her1 : forall j, er_vec sl1 j = if Nat.eqb j i then a else er_vec sl j).
    { intros j. unfold er_vec, sl1. destruct (Nat.eqb_spec j i) as [->|Hne].
      - rewrite getn_upd_eq by exact Hi. reflexivity.
      - rewrite getn_upd_neq by congruence. reflexivity. }
    assert (Hp1 : prob_ok sl1).
    { intros j. pose proof (Hstat1 j) as S. unfold stat in S. injection S as S1 S2 S3. rewrite S1, S3. apply Hp. }
    destruct (IH sl1 md1 sl' md' Hnd') as (I1 & I2 & I3 & I4 & I5); try assumption; try lra.
    { intros k Hk. unfold sl1. rewrite upd_length. apply Hr. right. exact Hk. }
    assert (Hstat : forall j, stat sl' j = stat sl j) by (intros j; rewrite I2; apply Hstat1).
    assert (Hclose : forall j, Qabs (er_vec sl' j - er_vec sl j) <= md').
    { intros j. destruct (Nat.eq_dec j i) as [->|Hne].
      - rewrite I4 by exact Hni. rewrite Her1, Nat.eqb_refl. unfold er_vec at 1. fold n. lra.
      - specialize (I3 j). rewrite Her1 in I3. destruct (Nat.eqb_spec j i); [contradiction|]. exact I3. }
    split; [lra|]. split; [exact Hstat|]. split; [exact Hclose|]. split.
    + intros j Hj. rewrite I4 by (intros Hin; apply Hj; right; exact Hin).
      rewrite Her1. destruct (Nat.eqb_spec j i) as [->|_]; [exfalso; apply Hj; left; reflexivity|reflexivity].
    + intros k [<-|Hk].
      * (* the state updated first: its value is psi of the vector at that time; everything moved by <= md' since *)
        rewrite I4 by exact Hni. rewrite Her1, Nat.eqb_refl.
        rewrite (rew_step_fst sl n a b c E). fold (psi_at sl (er_vec sl) i).
        unfold psi_at. apply psi_close.
        -- eapply Qle_trans; [exact Hd0|lra].
        -- exact Hclose.
        -- intros Hk. apply Hp. exact Hk.
      * specialize (I5 k Hk). pose proof (Hstat1 k) as S. unfold stat in S. injection S as S1 S2 S3.
        unfold psi_at in *. rewrite <- S1, <- S2, <- S3. exact I5.
Qed.

(* when the loop stops, the Bellman residual of the expected rewards is at most the threshold *)
Theorem vi_rew_residual : forall fuel (sl : list nodeQ) i sl' k,
  prob_ok sl -> vi_rew qops fuel sl i = Ok (sl', k) ->
  (forall j, stat sl' j = stat sl j) /\
  forall s, (s < length sl)%nat -> Qabs (psi_at sl (er_vec sl') s - er_vec sl' s) <= q_thr.
Proof.
  induction fuel as [|fuel IH]; intros sl i sl' k Hp H; cbn [vi_rew] in H; [discriminate|].
  destruct (sweep_rew qops sl) as [[sl1 d]| | |] eqn:E; cbn [bind] in H; try discriminate.
  cbn [fst snd] in H. unfold sweep_rew in E.
  destruct (sweep_rew_residual (seq 0 (length sl)) sl (zero qops) sl1 d (seq_NoDup _ _)) as (R1 & R2 & R3 & R4 & R5);
    try assumption; try (cbn; lra).
  { intros j Hj. apply in_seq in Hj. lia. }
  change (ltb qops (thr qops) d) with (qltb q_thr d) in H.
  destruct (qltb_cases q_thr d) as [[Eq _]|[Eq Hle]]; rewrite Eq in H.
  - assert (Hp1 : prob_ok sl1).
    { intros j. pose proof (R2 j) as S. unfold stat in S. injection S as S1 S2 S3. rewrite S1, S3. apply Hp. }
    destruct (IH sl1 _ sl' k Hp1 H) as [J1 J2]. split; [intros j; rewrite J1; apply R2|].
    intros s Hs. assert (Hl : length sl1 = length sl).
    { apply (map_eq_length (erase_rews qops)). apply (sweep_rew_frame qops _ _ _ _ _ E). }
    rewrite <- Hl in Hs. specialize (J2 s Hs). pose proof (R2 s) as S. unfold stat in S. injection S as S1 S2 S3.
    unfold psi_at in *. rewrite <- S1, <- S2, <- S3. exact J2.
  - inversion H; subst. split; [exact R2|]. intros s Hs. eapply Qle_trans; [apply R5; apply in_seq; lia|exact Hle].
Qed.
