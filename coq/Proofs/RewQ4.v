(** C02, end to end: the reported expected rewards are within threshold * T of any solution of the
    conditioned game's reward equations, when T certifies a bounded expected absorption time. *)
From Coq Require Import String List Arith Bool Lia QArith Qabs Qreduction Lqa.
From CR Require Import Model.Num Model.Outcome Model.Graph Model.Game Proofs.GameP Proofs.PipelineP Proofs.CondP
     Proofs.ReachQ Proofs.RewQ Proofs.RewQ2 Proofs.RewResQ Proofs.RewQ3 Proofs.ErrBound Proofs.RewErrBound.
Import ListNotations.
Local Open Scope Q_scope.

Theorem solve_reward_error_bound fuel (g : gameQ) prune r :
  wf_game qops g -> num_wf1 g -> solve_fuel qops fuel g prune = Ok r ->
  let kd := fun s => nth s (g_players g) PR in
  let rw := fun s => nth s (g_rewards g) 0 in
  let tr := fun s => nth s (r_pruned r) [] in
  let x := fun s => nth s (r_rewards r) 0 in
  forall (inS : nat -> bool) (y T : vec) (C M : Q),
    0 <= C ->
    (forall s, inS s = true -> (s < nstates g)%nat) ->
    (forall s, inS s = true -> y s = Psi kd rw tr y s) ->
    (forall s, inS s = false -> y s = x s) ->
    (forall s, Qabs (y s - x s) <= C) ->
    (forall s, 1 + B kd tr inS T s <= T s) -> (forall s, 0 <= T s <= M) ->
    forall s, Qabs (y s - x s) <= q_thr * T s.
Proof.
  intros Hwf Hnum H kd rw tr x inS y T C M HC HinS Hy Hout Hb HT HTb.
  pose proof (solve_bellman_consistent fuel g prune r Hwf Hnum H) as Hbc.
  destruct (pruned_is_conditioned qops fuel g prune r Hwf H) as [Hlen _].
  assert (Hrows : forall i, kd i = PR -> nonneg_w (tr i) /\ sumw (tr i) <= 1).
  { intros i Hk. destruct (Nat.lt_ge_cases i (nstates g)) as [Hi|Hi].
    - destruct (Hbc i Hi) as [R _]. destruct (R Hk) as [R1 R2]. split; [apply pos_nonneg; exact R1|exact R2].
    - unfold tr. rewrite nth_overflow by (rewrite Hlen; exact Hi). split; [intros t []|cbn; lra]. }
  apply (reward_error_bound kd rw tr inS (fun i Hk => proj1 (Hrows i Hk)) x y T q_thr C M); try assumption.
  - unfold q_thr. lra.
  - intros s Hs. destruct (Hbc s (HinS s Hs)) as [_ R]. exact R.
Qed.
