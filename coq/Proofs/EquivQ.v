(** Renaming states and reordering transitions commute with the Bellman operator of the reachability
    game (exact rationals), hence with every finite-horizon value (C13). *)
From Coq Require Import String List Arith Bool Lia QArith Qabs Qreduction Lqa Permutation.
From CR Require Import Model.Num Model.Outcome Model.Game Proofs.Laws Proofs.ReachQ Proofs.EquivP.
Import ListNotations.
Local Open Scope Q_scope.

Definition stepmax (m r : Q) : Q := if qltb m r then r else m.
Definition stepmin (m r : Q) : Q := if qltb r m then r else m.

Lemma stepmax_compat m m' r r' : m == m' -> r == r' -> stepmax m r == stepmax m' r'.
Proof.
  intros H1 H2. unfold stepmax.
  destruct (qltb_cases m r) as [[-> A]|[-> A]], (qltb_cases m' r') as [[-> B]|[-> B]]; lra.
Qed.
Lemma stepmin_compat m m' r r' : m == m' -> r == r' -> stepmin m r == stepmin m' r'.
Proof.
  intros H1 H2. unfold stepmin.
  destruct (qltb_cases r m) as [[-> A]|[-> A]], (qltb_cases r' m') as [[-> B]|[-> B]]; lra.
Qed.
Lemma stepmax_swap m a b : stepmax (stepmax m a) b == stepmax (stepmax m b) a.
Proof.
  unfold stepmax.
  destruct (qltb_cases m a) as [[-> A]|[-> A]], (qltb_cases m b) as [[-> B]|[-> B]];
  repeat match goal with |- context [qltb ?x ?y] => destruct (qltb_cases x y) as [[-> ?]|[-> ?]] end; lra.
Qed.
Lemma stepmin_swap m a b : stepmin (stepmin m a) b == stepmin (stepmin m b) a.
Proof.
  unfold stepmin.
  destruct (qltb_cases a m) as [[-> A]|[-> A]], (qltb_cases b m) as [[-> B]|[-> B]];
  repeat match goal with |- context [qltb ?x ?y] => destruct (qltb_cases x y) as [[-> ?]|[-> ?]] end; lra.
Qed.

Section FoldPerm.
Variable f : Q -> Q -> Q.
Hypothesis f_compat : forall m m' r r', m == m' -> r == r' -> f m r == f m' r'.
Hypothesis f_swap : forall m a b, f (f m a) b == f (f m b) a.

Lemma foldv_compat vs vs' : Forall2 Qeq vs vs' -> forall m m', m == m' -> fold_left f vs m == fold_left f vs' m'.
Proof.
  induction 1 as [|v v' vs vs' Hv _ IH]; intros m m' Hm; cbn [fold_left]; [exact Hm|].
  apply IH. apply f_compat; assumption.
Qed.
Lemma Forall2_Qeq_refl vs : Forall2 Qeq vs vs.
Proof. induction vs; constructor; [reflexivity|assumption]. Qed.
Lemma foldv_perm vs vs' : Permutation vs vs' -> forall m, fold_left f vs m == fold_left f vs' m.
Proof.
  induction 1 as [|v vs vs' _ IH|a b vs|vs1 vs2 vs3 _ IH1 _ IH2]; intros m; cbn [fold_left].
  - reflexivity.
  - apply IH.
  - apply foldv_compat; [apply Forall2_Qeq_refl|apply f_swap].
  - rewrite IH1. apply IH2.
Qed.
End FoldPerm.

Definition vals (x : nat -> Q) (l : list trans) : list Q := map (fun t => x (dst t)) l.

Lemma fmax_vals x l m : fmax x l m = fold_left stepmax (vals x l) m.
Proof. unfold fmax, vals. revert m. induction l as [|t l IH]; intros m; cbn [fold_left map]; [reflexivity|apply IH]. Qed.
Lemma fmin_vals x l m : fmin x l m = fold_left stepmin (vals x l) m.
Proof. unfold fmin, vals. revert m. induction l as [|t l IH]; intros m; cbn [fold_left map]; [reflexivity|apply IH]. Qed.

Definition sumxw (x : nat -> Q) (l : list trans) : Q := fold_right (fun t s => x (dst t) * pr t + s) 0 l.
Lemma wsum_spec x l : forall a, wsum x l a == a + sumxw x l.
Proof.
  induction l as [|t l IH]; intros a; cbn [wsum fold_left sumxw fold_right]; [lra|].
  fold (wsum x l (qadd a (qmul (x (dst t)) (pr t)))). rewrite IH. fold (sumxw x l).
  rewrite qadd_ok, qmul_ok. lra.
Qed.

Section Equiv.
Variables (n : nat) (pi pinv : nat -> nat).
Hypothesis R : renaming n pi pinv.
Variables (kd kd' : nat -> kind) (tr tr' : nat -> list trans) (finb finb' : nat -> bool).

Definition ren (t : trans) : trans := mkT (act t) (pr t) (pi (dst t)).

(* the renamed game: owner and finality follow the renaming; each row is the renamed row in any order *)
Hypothesis Hkd : forall i, (i < n)%nat -> kd' (pi i) = kd i.
Hypothesis Hfin : forall i, (i < n)%nat -> finb' (pi i) = finb i.
Hypothesis Htr : forall i, (i < n)%nat -> Permutation (tr' (pi i)) (map ren (tr i)).
Hypothesis Hrange : forall i t, (i < n)%nat -> In t (tr i) -> (dst t < n)%nat.

Definition related (x x' : nat -> Q) : Prop := forall i, (i < n)%nat -> x' (pi i) == x i.

Lemma vals_related x x' i : (i < n)%nat -> related x x' ->
  Forall2 Qeq (vals x' (map ren (tr i))) (vals x (tr i)).
Proof.
  intros Hi Hx. unfold vals. rewrite map_map. cbn [dst ren].
  assert (H : forall t, In t (tr i) -> (dst t < n)%nat) by (intros t; apply Hrange; exact Hi).
  induction (tr i) as [|t l IH]; cbn [map]; constructor.
  - apply Hx. apply H. left. reflexivity.
  - apply IH. intros u Hu. apply H. right. exact Hu.
Qed.

Lemma sumxw_perm x l l' : Permutation l l' -> sumxw x l == sumxw x l'.
Proof.
  induction 1 as [|t l l' _ IH|a b l|l1 l2 l3 _ IH1 _ IH2]; cbn [sumxw fold_right].
  - reflexivity.
  - fold (sumxw x l). fold (sumxw x l'). rewrite IH. reflexivity.
  - fold (sumxw x l). lra.
  - rewrite IH1. exact IH2.
Qed.
Lemma sumxw_related x x' i : (i < n)%nat -> related x x' -> sumxw x' (map ren (tr i)) == sumxw x (tr i).
Proof.
  intros Hi Hx.
  assert (H : forall t, In t (tr i) -> (dst t < n)%nat) by (intros t; apply Hrange; exact Hi).
  induction (tr i) as [|t l IH]; cbn [map sumxw fold_right]; [reflexivity|].
  fold (sumxw x' (map ren l)). fold (sumxw x l). cbn [dst pr ren].
  rewrite IH by (intros u Hu; apply H; right; exact Hu).
  rewrite (Hx (dst t)) by (apply H; left; reflexivity). reflexivity.
Qed.

(* the Bellman step of the renamed game at the renamed state equals the original step *)
Theorem Phi_equivariant x x' i : (i < n)%nat -> related x x' -> Phi kd' tr' x' (pi i) == Phi kd tr x i.
Proof.
  intros Hi Hx. unfold Phi. rewrite !rstep_unfold, (Hkd i Hi). destruct (kd i).
  - rewrite !fmax_vals.
    eapply Qeq_trans.
    + apply (foldv_perm stepmax stepmax_compat stepmax_swap). unfold vals.
      apply (Permutation_map (fun t : trans => x' (dst t))). apply (Htr i Hi).
    + apply (foldv_compat stepmax stepmax_compat); [apply vals_related; assumption|reflexivity].
  - rewrite !fmin_vals.
    eapply Qeq_trans.
    + apply (foldv_perm stepmin stepmin_compat stepmin_swap). unfold vals.
      apply (Permutation_map (fun t : trans => x' (dst t))). apply (Htr i Hi).
    + apply (foldv_compat stepmin stepmin_compat); [apply vals_related; assumption|reflexivity].
  - rewrite !wsum_spec. rewrite (sumxw_perm x' _ _ (Htr i Hi)), (sumxw_related x x' i Hi Hx). reflexivity.
Qed.

(* hence every finite-horizon value, i.e. the game value, changes only by the renaming *)
Theorem V_equivariant m : related (V kd tr finb m) (V kd' tr' finb' m).
Proof.
  induction m as [|m IH]; intros i Hi; cbn [V].
  - unfold x0. rewrite (Hfin i Hi). reflexivity.
  - unfold PhiStar. rewrite (Hfin i Hi). destruct (finb i); [reflexivity|].
    apply Phi_equivariant; assumption.
Qed.
End Equiv.
