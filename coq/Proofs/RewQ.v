(** The reward loop on exact rationals never reaches the unbound-variable branch (C06): expected
    rewards stay non-negative, so Player 1's scan always binds its pick. *)
From Coq Require Import String List Arith Bool Lia QArith Qabs Qreduction Lqa.
From CR Require Import Model.Num Model.Outcome Model.Graph Model.Game
     Proofs.Laws Proofs.GraphP Proofs.GameP Proofs.PruneStatesP Proofs.PipelineP Proofs.RewStepP
     Proofs.ReachQ Proofs.ReachQ2.
Import ListNotations.
Local Open Scope Q_scope.

Notation nodeQ := (@node Q).
Notation getq := (getn qops).

Definition pos_w (l : list trans) : Prop := forall t, In t l -> 0 < pr t.
Definition good_static (sl : list nodeQ) : Prop :=
  forall i, 0 <= rew (getq sl i) /\ (nk (getq sl i) = PR -> pos_w (nxt (getq sl i))).
Definition er_nonneg (sl : list nodeQ) : Prop := forall i, 0 <= er (getq sl i).

Lemma qleb_cases a b : (qleb a b = true /\ a <= b) \/ (qleb a b = false /\ b < a).
Proof.
  destruct (qleb a b) eqn:E; [left|right]; split; try reflexivity.
  - apply qleb_le. exact E.
  - apply Qnot_le_lt. intros H. apply qleb_le in H. congruence.
Qed.

Lemma p1_fold_some sl l : forall m t, exists m' t', p1_fold qops sl l (m, Some t) = (m', Some t') /\ m <= m'.
Proof.
  induction l as [|u l IH]; intros m t; cbn [p1_fold fold_left].
  - exists m, t. split; [reflexivity|lra].
  - cbn zeta. cbn [fst]. change (leb qops) with qleb.
    destruct (qleb_cases m (er (getq sl (dst u)))) as [[-> H]|[-> H]].
    + destruct (IH (er (getq sl (dst u))) u) as (m' & t' & E & Hle). exists m', t'. split; [exact E|lra].
    + apply IH.
Qed.
Lemma p1_fold_binds sl l : er_nonneg sl -> l <> [] ->
  exists m' t', p1_fold qops sl l (0, None) = (m', Some t') /\ 0 <= m'.
Proof.
  intros Hnn Hne. destruct l as [|u l]; [congruence|]. cbn [p1_fold fold_left]. cbn zeta. cbn [fst].
  change (leb qops) with qleb. pose proof (Hnn (dst u)) as Hu.
  destruct (qleb_cases 0 (er (getq sl (dst u)))) as [[-> H]|[-> H]]; [|lra].
  destruct (p1_fold_some sl l (er (getq sl (dst u))) u) as (m' & t' & E & Hle). exists m', t'. split; [exact E|lra].
Qed.

Lemma p2_fold_some sl l : er_nonneg sl -> forall m t, 0 <= m ->
  exists m' t', p2_fold qops sl l (m, Some t) = (m', Some t') /\ 0 <= m'.
Proof.
  intros Hnn. induction l as [|u l IH]; intros m t Hm; cbn [p2_fold fold_left].
  - exists m, t. split; [reflexivity|exact Hm].
  - cbn zeta. cbn [fst]. change (leb qops) with qleb.
    destruct (qleb (er (getq sl (dst u))) m); apply IH; [apply Hnn|exact Hm].
Qed.
Lemma p2_fold_binds sl first rest : er_nonneg sl ->
  exists m' t', p2_fold qops sl (first :: rest) (er (getq sl (dst first)), None) = (m', Some t') /\ 0 <= m'.
Proof.
  intros Hnn. cbn [p2_fold fold_left]. cbn zeta. cbn [fst]. change (leb qops) with qleb.
  destruct (qleb_cases (er (getq sl (dst first))) (er (getq sl (dst first)))) as [[-> _]|[-> H]]; [|lra].
  apply p2_fold_some; [exact Hnn|apply Hnn].
Qed.

Lemma wsum_like_nonneg (f : nodeQ -> Q) sl l a :
  (forall i, 0 <= f (getq sl i)) -> pos_w l -> 0 <= a ->
  0 <= fold_left (fun v t => add qops v (mul qops (f (getq sl (dst t))) (pr t))) l a.
Proof.
  intros Hf. revert a. induction l as [|t l IH]; intros a Hp Ha; cbn [fold_left]; [exact Ha|].
  apply IH; [intros u Hu; apply Hp; right; exact Hu|].
  change (add qops) with qadd. change (mul qops) with qmul. rewrite qadd_ok, qmul_ok.
  specialize (Hf (dst t)). assert (0 < pr t) by (apply Hp; left; reflexivity). nra.
Qed.

(* one reward step: never the unbound branch, and the new expected reward is non-negative *)
Lemma rew_step_ok sl n :
  er_nonneg sl -> 0 <= rew n -> (nk n = PR -> pos_w (nxt n)) ->
  exists a b c, rew_step qops sl n = Some (a, b, c) /\ 0 <= a.
Proof.
  intros Hnn Hr Hw. unfold rew_step. destruct (nxt n) as [|first rest] eqn:El.
  - exists 0, 0, 0. split; [reflexivity|lra].
  - destruct (nk n) eqn:Ek.
    + fold (p1_fold qops sl (first :: rest) (zero qops, None)).
      destruct (p1_fold_binds sl (first :: rest) Hnn) as (m' & t' & E & Hm); [discriminate|].
      change (zero qops) with 0. rewrite E. cbn [fst snd]. eexists _, _, _. split; [reflexivity|].
      change (add qops) with qadd. rewrite qadd_ok. lra.
    + cbn zeta. fold (p2_fold qops sl (first :: rest) (er (getq sl (dst first)), None)).
      destruct (p2_fold_binds sl first rest Hnn) as (m' & t' & E & Hm). rewrite E. cbn [fst snd].
      set (strats := snd (scan_min qops (one qops) (map (fun t => (act t, rnd qops (reach (getq sl (dst t))))) (first :: rest)))).
      destruct strats as [|s0 ss] eqn:Es.
      * eexists _, _, _. split; [reflexivity|]. change (add qops) with qadd. rewrite qadd_ok. lra.
      * destruct (filter (fun t0 => mem_str (act t0) (s0 :: ss)) (first :: rest)) as [|f0 fl] eqn:Efl.
        -- exfalso. (* the strategy's actions are actions of the list *)
           assert (Hin : In s0 (map fst (map (fun t => (act t, rnd qops (reach (getq sl (dst t))))) (first :: rest)))).
           { apply (scan_min_subset qops (one qops)). fold strats. rewrite Es. left. reflexivity. }
           rewrite map_map in Hin. cbn [fst] in Hin. apply in_map_iff in Hin. destruct Hin as [t [Ht Hin]].
           assert (Hf : In t (filter (fun t0 => mem_str (act t0) (s0 :: ss)) (first :: rest))).
           { apply filter_In. split; [exact Hin|]. apply mem_str_In. rewrite Ht. left. reflexivity. }
           rewrite Efl in Hf. destruct Hf.
        -- eexists _, _, _. split; [reflexivity|]. change (add qops) with qadd. rewrite qadd_ok. lra.
    + eexists _, _, _. split; [reflexivity|].
      apply (wsum_like_nonneg (@er Q)); [exact Hnn|apply Hw; reflexivity|exact Hr].
Qed.

Lemma good_static_upd sl i n' :
  good_static sl -> rew n' = rew (getq sl i) -> nk n' = nk (getq sl i) -> nxt n' = nxt (getq sl i) ->
  good_static (upd sl i n').
Proof.
  intros H H1 H2 H3 j. destruct (Nat.eq_dec i j) as [<-|Hne].
  - destruct (Nat.lt_ge_cases i (length sl)) as [Hi|Hi].
    + rewrite getn_upd_eq by exact Hi. rewrite H1, H2, H3. apply H.
    + rewrite getn_out by (rewrite upd_length; exact Hi). rewrite <- (getn_out qops sl i Hi). apply H.
  - rewrite getn_upd_neq by exact Hne. apply H.
Qed.
Lemma er_nonneg_upd sl i n' : er_nonneg sl -> 0 <= er n' -> er_nonneg (upd sl i n').
Proof.
  intros H Hn j. destruct (Nat.eq_dec i j) as [<-|Hne].
  - destruct (Nat.lt_ge_cases i (length sl)) as [Hi|Hi].
    + rewrite getn_upd_eq by exact Hi. exact Hn.
    + rewrite getn_out by (rewrite upd_length; exact Hi). rewrite <- (getn_out qops sl i Hi). apply H.
  - rewrite getn_upd_neq by exact Hne. apply H.
Qed.

Lemma sweep_fold_no_crash : forall (idxs : list nat) sl md,
  good_static sl -> er_nonneg sl ->
  exists sl' md', fold_left (fun o i =>
     do st <- o;
     let sl := fst st in let md := snd st in
     let n := getq sl i in
     match rew_step qops sl n with
     | None => Crash "UnboundLocalError"%string
     | Some (a, b, c) =>
       let d := max3 qops (absf qops (sub qops a (er n))) (absf qops (sub qops b (ermr n))) (absf qops (sub qops c (erm n))) in
       Ok (upd sl i (set_rews n a b c), if ltb qops md d then d else md)
     end) idxs (Ok (sl, md)) = Ok (sl', md') /\ good_static sl' /\ er_nonneg sl'.
Proof.
  induction idxs as [|i idxs IH]; intros sl md Hg Hnn; cbn [fold_left].
  - exists sl, md. split; [reflexivity|split; assumption].
  - cbn [bind fst snd].
    destruct (rew_step_ok sl (getq sl i) Hnn (proj1 (Hg i)) (proj2 (Hg i))) as (a & b & c & E & Ha).
    rewrite E. apply IH.
    + apply (good_static_upd sl i _ Hg); reflexivity.
    + apply (er_nonneg_upd sl i _ Hnn). exact Ha.
Qed.

Lemma sweep_rew_no_crash sl : good_static sl -> er_nonneg sl ->
  exists sl' md', sweep_rew qops sl = Ok (sl', md') /\ good_static sl' /\ er_nonneg sl'.
Proof. intros Hg Hnn. unfold sweep_rew. apply sweep_fold_no_crash; assumption. Qed.

Theorem vi_rew_no_crash : forall fuel sl i,
  good_static sl -> er_nonneg sl ->
  match vi_rew qops fuel sl i with Ok _ => True | OutOfFuel => True | _ => False end.
Proof.
  induction fuel as [|fuel IH]; intros sl i Hg Hnn; cbn [vi_rew]; [exact I|].
  destruct (sweep_rew_no_crash sl Hg Hnn) as (sl' & md' & E & Hg' & Hnn').
  rewrite E. cbn [bind fst snd]. destruct (ltb qops (thr qops) md'); [apply IH; assumption|exact I].
Qed.
