(** Proofs for Model/Report.v (C16): block layout, read-back of every line, lines <-> text,
    file stem. *)
From Coq Require Import String Ascii ZArith List Bool Arith Lia.
From CR Require Import Model.Params Model.Report.
Import ListNotations.
Local Open Scope string_scope.

(** * Structural equality on Python values *)
Section PyvalInd.
  Variable P : pyval -> Prop.
  Hypothesis HN : P PNone.
  Hypothesis HB : forall b, P (PBool b).
  Hypothesis HI : forall z, P (PInt z).
  Hypothesis HF : forall r, P (PFloat r).
  Hypothesis HS : forall s, P (PStr s).
  Hypothesis HL : forall l, Forall P l -> P (PList l).
  Fixpoint pyval_ind' (v : pyval) : P v :=
    match v with
    | PNone => HN | PBool b => HB b | PInt z => HI z | PFloat r => HF r | PStr s => HS s
    | PList l => HL l ((fix go (l : list pyval) : Forall P l :=
                          match l with
                          | [] => Forall_nil P
                          | x :: r => Forall_cons x (pyval_ind' x) (go r)
                          end) l)
    end.
End PyvalInd.

Lemma pyval_eqb_eq : forall a b, pyval_eqb a b = true <-> a = b.
Proof.
  induction a using pyval_ind'; intros y.
  - destruct y; simpl; split; congruence.
  - destruct y; simpl; split; try congruence.
    + intros E. apply eqb_prop in E. congruence.
    + intros E. injection E as E. subst. apply eqb_reflx.
  - destruct y; simpl; split; try congruence.
    + intros E. apply Z.eqb_eq in E. congruence.
    + intros E. injection E as E. subst. apply Z.eqb_refl.
  - destruct y; simpl; split; try congruence.
    + intros E. apply String.eqb_eq in E. congruence.
    + intros E. injection E as E. subst. apply String.eqb_refl.
  - destruct y; simpl; split; try congruence.
    + intros E. apply String.eqb_eq in E. congruence.
    + intros E. injection E as E. subst. apply String.eqb_refl.
  - destruct y as [| | | | |l']; simpl; split; try congruence.
    + intros E. f_equal. revert l' E. induction H as [|x l Hx Hl IH]; intros [|y l'] E; try congruence.
      apply andb_prop in E. destruct E as [E1 E2]. f_equal; [now apply Hx|now apply IH].
    + intros E. injection E as E. subst l'. induction H as [|x l Hx Hl IH]; [reflexivity|].
      apply andb_true_intro. split; [now apply Hx|exact IH].
Qed.

(** * Strings *)
Lemma substring_all : forall s, substring 0 (String.length s) s = s.
Proof. induction s; simpl; [reflexivity|now rewrite IHs]. Qed.

Lemma length_app : forall a b, String.length (a ++ b) = String.length a + String.length b.
Proof. induction a; simpl; intros; [reflexivity|now rewrite IHa]. Qed.

Lemma drop_prefix : forall a b,
  substring (String.length a) (String.length (a ++ b) - String.length a) (a ++ b) = b.
Proof.
  intros a b. rewrite length_app. replace (String.length a + String.length b - String.length a) with (String.length b) by lia.
  induction a; simpl; [apply substring_all|exact IHa].
Qed.

Lemma drop_label_app : forall lab s, String.length lab = label_width -> drop_label (lab ++ s) = s.
Proof. intros lab s H. unfold drop_label. rewrite <- H. apply drop_prefix. Qed.

Lemma has_char_app : forall c a b, has_char c (a ++ b) = has_char c a || has_char c b.
Proof. induction a; simpl; intros; [reflexivity|]. rewrite IHa. now rewrite orb_assoc. Qed.

(** * Block layout *)
Section Layout.
  Variable show : pyval -> string.

  Lemma format_entry_length : forall n e, List.length (format_entry show n e) = 15.
  Proof. reflexivity. Qed.

  Lemma report_lines_cons : forall ne res,
    report_lines show (ne :: res) = (format_entry show (fst ne) (snd ne) ++ report_lines show res)%list.
  Proof. reflexivity. Qed.

  Lemma report_lines_length : forall res, List.length (report_lines show res) = 15 * List.length res.
  Proof.
    induction res as [|ne res IH]; [reflexivity|].
    rewrite report_lines_cons, app_length, format_entry_length, IH. simpl List.length. lia.
  Qed.

  (* block i occupies lines 15 i .. 15 i + 14 and is the rendering of the i-th entry *)
  Lemma block_at : forall res i k d, i < List.length res -> k < 15 ->
    nth (15 * i + k) (report_lines show res) "" =
    nth k (format_entry show (fst (nth i res d)) (snd (nth i res d))) "".
  Proof.
    induction res as [|ne res IH]; intros i k d Hi Hk; [simpl in Hi; lia|].
    rewrite report_lines_cons. destruct i.
    - rewrite app_nth1 by (rewrite format_entry_length; lia). replace (15 * 0 + k) with k by lia. reflexivity.
    - rewrite app_nth2 by (rewrite format_entry_length; lia). rewrite format_entry_length.
      replace (15 * S i + k - 15) with (15 * i + k) by lia. simpl in Hi. change (nth (S i) (ne :: res) d) with (nth i res d).
      apply IH; lia.
  Qed.

  (* line k of a block is its label followed by the rendering of its field *)
  Lemma line_of_field : forall n e k v, field_of_line e k = Some v ->
    nth k (format_entry show n e) "" = label_of_line k ++ show v.
  Proof.
    intros n e k v H.
    do 15 (destruct k as [|k]; [simpl in H; try discriminate H; injection H as H; subst v; reflexivity|]).
    simpl in H. discriminate H.
  Qed.

  Lemma label_of_line_width : forall k, 1 <= k < 15 -> String.length (label_of_line k) = label_width.
  Proof.
    intros k [H1 H2]. destruct k; [lia|].
    do 14 (destruct k as [|k]; [reflexivity|]). lia.
  Qed.

  Lemma line_name : forall n e, nth 1 (format_entry show n e) "" = label_name ++ n.
  Proof. reflexivity. Qed.
  Lemma line_msg : forall n e, nth 2 (format_entry show n e) "" = label_msg ++ e_msg e.
  Proof. reflexivity. Qed.
  Lemma line_rule : forall n e, nth 0 (format_entry show n e) "" = rule_line.
  Proof. reflexivity. Qed.

  (* read-back *)
  Variable parse : string -> option pyval.

  Lemma readback_field : forall n e k v, field_of_line e k = Some v ->
    parse (show v) = Some v ->
    read_field parse (nth k (format_entry show n e) "") = Some v.
  Proof.
    intros n e k v H R. rewrite (line_of_field n e k v H). unfold read_field.
    rewrite drop_label_app; [exact R|].
    apply label_of_line_width.
    destruct k; [discriminate H|]. split; [lia|].
    destruct (Nat.lt_ge_cases (S k) 15) as [|G]; [assumption|exfalso].
    do 14 (destruct k as [|k]; [lia|]). simpl in H. discriminate H.
  Qed.

  Lemma readback_name : forall n e, drop_label (nth 1 (format_entry show n e) "") = n.
  Proof. intros. rewrite line_name. now apply drop_label_app. Qed.
  Lemma readback_msg : forall n e, drop_label (nth 2 (format_entry show n e) "") = e_msg e.
  Proof. intros. rewrite line_msg. now apply drop_label_app. Qed.
End Layout.

(** * Lines and text *)
Definition newline : ascii := ascii_of_nat 10.

Lemma lines_of_aux_line : forall l cur rest, has_char newline l = false ->
  lines_of_aux cur (l ++ String newline rest) = cur l :: lines_of_aux (fun x => x) rest.
Proof.
  induction l as [|c l IH]; intros cur rest H.
  - reflexivity.
  - simpl in H. apply orb_false_elim in H. destruct H as [H1 H2].
    change ((String c l) ++ String newline rest) with (String c (l ++ String newline rest)).
    cbn [lines_of_aux]. fold newline. rewrite H1.
    rewrite (IH (fun x => cur (String c x)) rest H2). reflexivity.
Qed.

Lemma lines_of_text : forall ls, (forall l, In l ls -> has_char newline l = false) ->
  lines_of (text_of_lines ls) = ls.
Proof.
  induction ls as [|l ls IH]; intros H; [reflexivity|].
  unfold lines_of.
  change (text_of_lines (l :: ls)) with (l ++ String newline (text_of_lines ls)).
  rewrite lines_of_aux_line by (apply H; now left).
  f_equal. apply IH. intros x Hx. apply H. now right.
Qed.

(** * File stem *)
Lemma split_on_nonempty : forall c s, split_on c s <> [].
Proof. intros c s. destruct s; simpl; [discriminate|]. destruct (Ascii.eqb a c); [discriminate|]. destruct (split_on c s); discriminate. Qed.

Lemma split_on_app : forall c a b, split_on c (a ++ String c b) = (split_on c a ++ split_on c b)%list.
Proof.
  induction a as [|x a IH]; intros b; simpl.
  - rewrite Ascii.eqb_refl. reflexivity.
  - destruct (Ascii.eqb x c); [now rewrite IH|].
    rewrite IH. destruct (split_on c a) eqn:E; [exfalso; exact (split_on_nonempty _ _ E)|reflexivity].
Qed.

Lemma split_on_none : forall c s, has_char c s = false -> split_on c s = [s].
Proof.
  induction s as [|x s IH]; simpl; intros H; [reflexivity|].
  apply orb_false_elim in H. destruct H as [H1 H2]. rewrite H1, (IH H2). reflexivity.
Qed.

Lemma last_app_ne : forall {A} (l1 l2 : list A) d, l2 <> [] -> last (l1 ++ l2)%list d = last l2 d.
Proof.
  induction l1 as [|x l1 IH]; intros l2 d H; [reflexivity|].
  simpl app. destruct (l1 ++ l2)%list eqn:E.
  - apply app_eq_nil in E. destruct E; contradiction.
  - rewrite <- E. simpl. rewrite E. rewrite <- E. now apply IH.
Qed.

Lemma hd_split_prefix : forall c st rest, has_char c st = false ->
  hd "" (split_on c (st ++ String c rest)) = st.
Proof. intros. rewrite split_on_app, split_on_none by assumption. reflexivity. Qed.

(* dir/stem.ext -> stem, for any dir (slashes and dots allowed) and any ext without a slash *)
Lemma stem_of_path : forall dir st ext,
  has_char "/" st = false -> has_char "." st = false -> has_char "/" ext = false ->
  stem (dir ++ "/" ++ st ++ "." ++ ext) = st.
Proof.
  intros dir st ext H1 H2 H3. unfold stem.
  change (dir ++ "/" ++ st ++ "." ++ ext) with (dir ++ String "/" (st ++ String "." ext)).
  rewrite split_on_app, last_app_ne by apply split_on_nonempty.
  rewrite (split_on_none "/") by (rewrite has_char_app; simpl; rewrite H1, H3; reflexivity).
  simpl last. now apply hd_split_prefix.
Qed.

Lemma stem_no_dir : forall st ext,
  has_char "/" st = false -> has_char "." st = false -> has_char "/" ext = false ->
  stem (st ++ "." ++ ext) = st.
Proof.
  intros st ext H1 H2 H3. unfold stem.
  change (st ++ "." ++ ext) with (st ++ String "." ext).
  rewrite (split_on_none "/") by (rewrite has_char_app; simpl; rewrite H1, H3; reflexivity).
  simpl last. now apply hd_split_prefix.
Qed.

Lemma report_path_of : forall dir st,
  has_char "/" st = false -> has_char "." st = false ->
  report_path (dir ++ "/" ++ st ++ ".py") = "outputs/" ++ st ++ ".txt".
Proof.
  intros. unfold report_path. change (dir ++ "/" ++ st ++ ".py") with (dir ++ "/" ++ st ++ "." ++ "py").
  rewrite stem_of_path; auto.
Qed.
