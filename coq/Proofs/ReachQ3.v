(** The error form of "within the solver's tolerance" is false (known finding K1): a three-state
    well-formed game on which the reported probability is more than 100 thresholds below the value of
    the 300-step game, hence below the true value. *)
From Coq Require Import String List Arith Bool Lia QArith Qabs Qreduction Lqa.
From CR Require Import Model.Num Model.Outcome Model.Graph Model.Game
     Proofs.PipelineP Proofs.ReachQ Proofs.ReachQ2.
Import ListNotations.
Local Open Scope Q_scope.

Definition k1_p : Q := 1 # 2097152.     (* 2^-21 < 10^-6 *)
Definition k1_game : @game Q :=
  mkG [0; 0; 0] [PR; PR; PR]
      [[mkT "" (1 - k1_p) 0%nat; mkT "" k1_p 1%nat]; [mkT "" 1 1%nat]; [mkT "" 1 2%nat]] [1%nat].

Lemma k1_wf : wf_game qops k1_game.
Proof.
  unfold wf_game, nstates. cbn [k1_game g_trans g_rewards g_players g_finals length].
  split; [reflexivity|]. split; [reflexivity|]. split.
  - intros r Hr. cbn in Hr. destruct Hr as [<-|[<-|[<-|[]]]]; reflexivity.
  - split; [discriminate|]. split.
    + intros f [<-|[]]. lia.
    + intros tr Htr. cbn in Htr.
      destruct Htr as [<-|[<-|[<-|[]]]]; (split; [discriminate|]); intros t Ht; cbn in Ht.
      * destruct Ht as [<-|[<-|[]]]; cbn; lia.
      * destruct Ht as [<-|[]]; cbn; lia.
      * destruct Ht as [<-|[]]; cbn; lia.
Qed.

Lemma k1_num : forall i, nth i (g_players k1_game) PR = PR ->
  nonneg_w (nth i (g_trans k1_game) []) /\ sumw (nth i (g_trans k1_game) []) <= 1.
Proof.
  intros i _. destruct i as [|[|[|i]]]; cbn [nth g_trans k1_game].
  - split; [intros t [<-|[<-|[]]]; cbn; unfold k1_p; lra|cbn; unfold k1_p; lra].
  - split; [intros t [<-|[]]; cbn; lra|cbn; lra].
  - split; [intros t [<-|[]]; cbn; lra|cbn; lra].
  - destruct i; cbn; split; try (intros t []); lra.
Qed.

Fixpoint qpow (a : Q) (m : nat) : Q := match m with O => 1 | S m => a * qpow a m end.

Lemma k1_V_closed m : gV k1_game m 0%nat == 1 - qpow (1 - k1_p) m /\ gV k1_game m 1%nat == 1.
Proof.
  induction m as [|m [IH0 IH1]].
  - split; cbn; lra.
  - unfold gV in *. cbn [V]. unfold PhiStar, gfin. cbn [mem_nat existsb k1_game g_finals Nat.eqb orb].
    unfold Phi, gkd, gtr. cbn [nth k1_game g_players g_trans]. rewrite !rstep_unfold. unfold wsum. cbn [fold_left dst pr].
    split.
    + rewrite !qadd_ok, !qmul_ok. rewrite IH0, IH1. cbn [qpow]. ring.
    + reflexivity.
Qed.

Lemma k1_reported :
  exists sl1 rs it, solve_reach_fuel qops 10 k1_game false = Ok (sl1, rs, it) /\ it = 1%nat /\
                    reach_vec qops sl1 0%nat == k1_p.
Proof. eexists _, _, _. split; [vm_compute; reflexivity|]. split; [reflexivity|vm_compute; reflexivity]. Qed.

Theorem k1_gap :
  exists sl1 rs it, solve_reach_fuel qops 10 k1_game false = Ok (sl1, rs, it) /\
    gV k1_game 300 0%nat - reach_vec qops sl1 0%nat > 100 * q_thr.
Proof.
  destruct k1_reported as (sl1 & rs & it & H & _ & Hr). exists sl1, rs, it. split; [exact H|].
  destruct (k1_V_closed 300) as [Hv _]. rewrite Hv, Hr.
  vm_compute. reflexivity.
Qed.
