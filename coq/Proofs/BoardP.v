(** Lemmas about the board generator model (Model/Board.v): list layout (element g*n + i*W + j of
    the concatenation of nested-loop groups), lengths, and the facts behind C11. *)
From Coq Require Import String List Arith Bool Lia.
From CR Require Import Model.Num Model.Outcome Model.Graph Model.Game Model.Board.
Import ListNotations.

(** * Nested-loop lists *)

Lemma grid_length {A} L W (f : nat -> nat -> A) : length (grid L W f) = L * W.
Proof.
  unfold grid. generalize 0 at 2. induction L as [|L IH]; intros s; cbn [seq flat_map]; [reflexivity|].
  rewrite app_length, map_length, seq_length, IH. lia.
Qed.

Lemma flat_map_const_nth {A B} (g : B -> list A) (W : nat) (l : list B) (d : A) i j :
  (forall b, In b l -> length (g b) = W) -> i < length l -> j < W ->
  forall db, nth (i * W + j) (flat_map g l) d = nth j (g (nth i l db)) d.
Proof.
  revert i. induction l as [|b l IH]; intros i Hlen Hi Hj db; [cbn in Hi; lia|].
  cbn [flat_map]. destruct i as [|i].
  - cbn [nth Nat.mul Nat.add]. rewrite app_nth1; [reflexivity|]. rewrite Hlen by (left; reflexivity). exact Hj.
  - rewrite app_nth2; rewrite Hlen by (left; reflexivity); [|lia].
    replace (S i * W + j - W) with (i * W + j) by lia.
    cbn [nth]. apply IH; [intros; apply Hlen; right; assumption | cbn in Hi; lia | exact Hj].
Qed.

Lemma nth_grid {A} L W (f : nat -> nat -> A) d i j :
  i < L -> j < W -> nth (i * W + j) (grid L W f) d = f i j.
Proof.
  intros Hi Hj. unfold grid.
  rewrite (flat_map_const_nth _ W _ d i j) with (db := 0).
  - rewrite seq_nth by exact Hi. rewrite (nth_indep _ d (f (0+i) 0)) by (rewrite map_length, seq_length; exact Hj).
    rewrite map_nth, seq_nth by exact Hj. reflexivity.
  - intros b _. rewrite map_length, seq_length. reflexivity.
  - rewrite seq_length. exact Hi.
  - exact Hj.
Qed.

Lemma Forall_grid {A} (P : A -> Prop) L W (f : nat -> nat -> A) :
  (forall i j, i < L -> j < W -> P (f i j)) -> Forall P (grid L W f).
Proof.
  intros H. unfold grid. apply Forall_forall. intros x Hx.
  apply in_flat_map in Hx. destruct Hx as (i & Hi & Hx). apply in_map_iff in Hx.
  destruct Hx as (j & E & Hj). subst x. apply in_seq in Hi. apply in_seq in Hj. apply H; lia.
Qed.

Lemma cell_lt L W i j : i < L -> j < W -> i * W + j < L * W.
Proof. intros Hi Hj. nia. Qed.

(* every index below L*W is a cell *)
Lemma cell_decomp L W c : c < L * W -> exists i j, i < L /\ j < W /\ c = i * W + j.
Proof.
  intros H. assert (W <> 0) by (intros ->; lia).
  exists (c / W), (c mod W). split; [|split].
  - apply Nat.div_lt_upper_bound; [assumption|lia].
  - apply Nat.mod_upper_bound. assumption.
  - rewrite (Nat.div_mod c W) at 1 by assumption. lia.
Qed.

(** * Concatenation of equal-length groups, right-nested as the writers build it *)
Fixpoint chain {A} (ls : list (list A)) (tail : list A) : list A :=
  match ls with [] => tail | l :: r => l ++ chain r tail end.

Lemma chain_length {A} (ls : list (list A)) tail n :
  Forall (fun l => length l = n) ls -> length (chain ls tail) = length ls * n + length tail.
Proof.
  induction 1 as [|l r Hl _ IH]; cbn [chain length]; [reflexivity|].
  rewrite app_length, IH, Hl. lia.
Qed.

Lemma nth_chain {A} (ls : list (list A)) tail n d g r :
  Forall (fun l => length l = n) ls -> g < length ls -> r < n ->
  nth (g * n + r) (chain ls tail) d = nth r (nth g ls []) d.
Proof.
  intros HF. revert g. induction HF as [|l rest Hl _ IH]; intros g Hg Hr; [cbn in Hg; lia|].
  cbn [chain]. destruct g as [|g].
  - cbn [Nat.mul Nat.add nth]. apply app_nth1. lia.
  - rewrite app_nth2 by (rewrite Hl; lia). rewrite Hl.
    replace (S g * n + r - n) with (g * n + r) by lia.
    cbn [nth]. apply IH; [cbn in Hg; lia|assumption].
Qed.

Lemma nth_chain_tail {A} (ls : list (list A)) tail n d r :
  Forall (fun l => length l = n) ls ->
  nth (length ls * n + r) (chain ls tail) d = nth r tail d.
Proof.
  induction 1 as [|l rest Hl _ IH]; cbn [chain length]; [reflexivity|].
  rewrite app_nth2 by (rewrite Hl; lia). rewrite Hl.
  replace (S (length rest) * n + r - n) with (length rest * n + r) by lia. exact IH.
Qed.

(* the groups are nested-loop lists over the same board *)
Lemma grids_all_length {A} L W (fs : list (nat -> nat -> A)) :
  Forall (fun l => length l = L * W) (map (grid L W) fs).
Proof. apply Forall_forall. intros l Hl. apply in_map_iff in Hl. destruct Hl as (f & <- & _). apply grid_length. Qed.

Lemma nth_groups {A} L W (fs : list (nat -> nat -> A)) tail d g i j :
  g < length fs -> i < L -> j < W ->
  nth (g * (L * W) + i * W + j) (chain (map (grid L W) fs) tail) d = nth g fs (fun _ _ => d) i j.
Proof.
  intros Hg Hi Hj. rewrite <- Nat.add_assoc.
  rewrite (nth_chain _ tail (L * W)); [|apply grids_all_length|rewrite map_length; assumption|apply cell_lt; assumption].
  rewrite (nth_indep _ [] (grid L W (fun _ _ => d))) by (rewrite map_length; assumption).
  rewrite map_nth. apply nth_grid; assumption.
Qed.

Lemma nth_groups_tail {A} L W (fs : list (nat -> nat -> A)) tail d r :
  nth (length fs * (L * W) + r) (chain (map (grid L W) fs) tail) d = nth r tail d.
Proof.
  rewrite <- (map_length (grid L W) fs). apply nth_chain_tail. apply grids_all_length.
Qed.

Lemma groups_length {A} L W (fs : list (nat -> nat -> A)) tail :
  length (chain (map (grid L W) fs) tail) = length fs * (L * W) + length tail.
Proof. rewrite (chain_length _ _ (L * W)) by apply grids_all_length. rewrite map_length. reflexivity. Qed.

Lemma Forall_groups {A} (P : A -> Prop) L W (fs : list (nat -> nat -> A)) tail :
  Forall (fun f => forall i j, i < L -> j < W -> P (f i j)) fs -> Forall P tail ->
  Forall P (chain (map (grid L W) fs) tail).
Proof.
  intros HF HT. induction HF as [|f r Hf _ IH]; cbn [map chain]; [assumption|].
  apply Forall_app. split; [apply Forall_grid; assumption|assumption].
Qed.

(** * repeat *)
Lemma nth_repeat_same {A} (x : A) k s : nth s (repeat x k) x = x.
Proof. revert s. induction k as [|k IH]; intros [|s]; cbn; auto. Qed.

Lemma nth_repeat_in {A} (x d : A) k s : s < k -> nth s (repeat x k) d = x.
Proof. revert s. induction k as [|k IH]; intros [|s] H; cbn; try lia; auto. apply IH. lia. Qed.

(** * Layout of the three games: the transition list of gen_X is the concatenation of its groups,
      each a nested-loop list, followed by the losing and the winning state *)
Section Layout.
Context {T : Type} (K : ops T).
Variables (L W : nat) (moves : nat -> nat -> nat) (rewards : nat -> nat -> T)
          (loose : nat -> nat -> nat) (ptb prb plb : T).
Notation n := (L * W).

Definition tail_of (total : nat) : list (list (trans (T:=T))) :=
  [[pb (one K) (n * total)]; [pb (one K) (n * total + 1)]].

Definition cells_A_with (lr : (nat -> nat -> nat) -> nat -> nat -> nat -> nat -> list (trans (T:=T))) :=
  [player_two_cell K W moves (1 * n) (2 * n);
   player_one_down_cell K L W (3 * n) (Some (n * 4 + 1));
   lr moves (3 * n) (3 * n);
   prob_tile_break_cell K W ptb loose 0 (n * 4)].
Definition cells_A := cells_A_with (player_one_left_right_cell K W).
Definition cells_A_orig := cells_A_with (player_one_left_right_cell_orig K W).

Definition cells_B :=
  [player_two_cell K W moves (1 * n) (2 * n);
   player_one_down_cell K L W (4 * n) None;
   player_one_left_right_cell K W moves (5 * n) (6 * n);
   prob_tile_break_cell K W ptb loose 0 (n * 7);
   prob_robot_down_break_cell K L W prb (3 * n) (n * 7 + 1);
   prob_robot_left_break_cell K W prb (3 * n);
   prob_robot_right_break_cell K W prb (3 * n)].

Definition cells_C :=
  [player_two_cell K W moves (8 * n) (9 * n);
   player_one_down_cell K L W (5 * n) None;
   player_one_left_right_cell K W moves (6 * n) (7 * n);
   player_one_down_left_right_cell K W moves (5 * n) (6 * n) (7 * n);
   prob_tile_break_cell K W ptb loose 0 (n * 10);
   prob_robot_down_break_cell K L W prb (4 * n) (n * 10 + 1);
   prob_robot_left_break_cell K W prb (4 * n);
   prob_robot_right_break_cell K W prb (4 * n);
   prob_light_break_cell K W plb (1 * n) (3 * n);
   prob_light_break_cell K W plb (2 * n) (3 * n)].

Lemma gen_A_trans :
  g_trans (gen_A K L W moves rewards loose ptb) = chain (map (grid L W) cells_A) (tail_of 4).
Proof. reflexivity. Qed.
Lemma gen_A_orig_trans :
  g_trans (gen_A_orig K L W moves rewards loose ptb) = chain (map (grid L W) cells_A_orig) (tail_of 4).
Proof. reflexivity. Qed.
Lemma gen_B_trans :
  g_trans (gen_B K L W moves rewards loose ptb prb) = chain (map (grid L W) cells_B) (tail_of 7).
Proof. reflexivity. Qed.
Lemma gen_C_trans :
  g_trans (gen_C K L W moves rewards loose ptb prb plb) = chain (map (grid L W) cells_C) (tail_of 10).
Proof. reflexivity. Qed.

Lemma gen_A_rewards : g_rewards (gen_A K L W moves rewards loose ptb) = my_rewards K L W rewards 4.
Proof. reflexivity. Qed.
Lemma gen_B_rewards : g_rewards (gen_B K L W moves rewards loose ptb prb) = my_rewards K L W rewards 7.
Proof. reflexivity. Qed.
Lemma gen_C_rewards : g_rewards (gen_C K L W moves rewards loose ptb prb plb) = my_rewards K L W rewards 10.
Proof. reflexivity. Qed.
Lemma gen_A_players : g_players (gen_A K L W moves rewards loose ptb) = my_players L W 2 1.
Proof. reflexivity. Qed.
Lemma gen_B_players : g_players (gen_B K L W moves rewards loose ptb prb) = my_players L W 2 4.
Proof. reflexivity. Qed.
Lemma gen_C_players : g_players (gen_C K L W moves rewards loose ptb prb plb) = my_players L W 3 6.
Proof. reflexivity. Qed.
Lemma gen_A_finals : g_finals (gen_A K L W moves rewards loose ptb) = [n * 4 + 1].
Proof. reflexivity. Qed.
Lemma gen_B_finals : g_finals (gen_B K L W moves rewards loose ptb prb) = [n * 7 + 1].
Proof. reflexivity. Qed.
Lemma gen_C_finals : g_finals (gen_C K L W moves rewards loose ptb prb plb) = [n * 10 + 1].
Proof. reflexivity. Qed.

(** rewards and owners by index *)
Lemma my_rewards_length total : length (my_rewards K L W rewards total) = n + n * (total - 1) + 2.
Proof. unfold my_rewards. rewrite !app_length, grid_length, repeat_length. cbn [length]. lia. Qed.

Lemma my_rewards_cell total i j : i < L -> j < W ->
  nth (i * W + j) (my_rewards K L W rewards total) (zero K) = rewards i j.
Proof.
  intros Hi Hj. unfold my_rewards. rewrite app_nth1 by (rewrite grid_length; apply cell_lt; assumption).
  apply nth_grid; assumption.
Qed.

Lemma my_rewards_rest total s : n <= s -> nth s (my_rewards K L W rewards total) (zero K) = zero K.
Proof.
  intros Hs. unfold my_rewards. rewrite app_nth2 by (rewrite grid_length; assumption).
  change [zero K; zero K] with (repeat (zero K) 2). rewrite <- repeat_app. apply nth_repeat_same.
Qed.

Lemma my_players_length a b : length (my_players L W a b) = n + n * a + n * b + 2.
Proof. unfold my_players. rewrite !app_length, !repeat_length. cbn [length]. lia. Qed.

Lemma my_players_nth a b s :
  nth s (my_players L W a b) PR =
  if s <? n then P2 else if s <? n + n * a then P1 else PR.
Proof.
  unfold my_players. destruct (Nat.ltb_spec s n) as [H|H].
  - rewrite app_nth1 by (rewrite repeat_length; assumption).
    apply nth_repeat_in. assumption.
  - rewrite app_nth2 by (rewrite repeat_length; assumption). rewrite repeat_length.
    destruct (Nat.ltb_spec s (n + n * a)) as [H2|H2].
    + rewrite app_nth1 by (rewrite repeat_length; lia). apply nth_repeat_in. lia.
    + rewrite app_nth2 by (rewrite repeat_length; lia). rewrite repeat_length.
      change [PR; PR] with (repeat PR 2). rewrite <- repeat_app. apply nth_repeat_same.
Qed.

End Layout.

(** * What the solver's validation needs (generic in the number operations) *)
Section Validation.
Context {T : Type} (K : ops T).
Notation tr := (trans (T:=T)).

(* every transition list is non-empty and every target is a state *)
Definition rows_ok (n : nat) (tl : list (list tr)) : Prop :=
  Forall (fun row => row <> [] /\ Forall (fun t => dst t < n) row) tl.

Lemma existsb_range_false n (row : list tr) :
  Forall (fun t => dst t < n) row -> existsb (fun t => n <=? dst t) row = false.
Proof.
  induction 1 as [|t r Ht _ IH]; cbn [existsb]; [reflexivity|].
  rewrite IH, orb_false_r. apply Nat.leb_gt. assumption.
Qed.

Lemma init_states_from_ok n finals (l : list (kind * list tr * T)) : forall idx,
  Forall (fun x => snd (fst x) <> [] /\ Forall (fun t => dst t < n) (snd (fst x))) l ->
  exists sl, init_states_from K n idx finals l = Ok sl /\ length sl = length l.
Proof.
  induction l as [|[[k row] r] l IH]; intros idx HF.
  - exists []. split; reflexivity.
  - inversion HF as [|? ? [Hne Hrange] HF']; subst. cbn [fst snd] in Hne, Hrange.
    destruct (IH (S idx) HF') as (rest & E & Hlen).
    cbn [init_states_from]. destruct row as [|t row]; [contradiction|].
    rewrite (existsb_range_false n (t :: row) Hrange). rewrite E. cbn [bind].
    eexists. split; [reflexivity|]. cbn [length]. rewrite Hlen. reflexivity.
Qed.

Lemma init_states_ok (g : game (T:=T)) :
  length (g_trans g) = length (g_players g) -> length (g_rewards g) = length (g_players g) ->
  rows_ok (length (g_players g)) (g_trans g) ->
  exists sl, init_states K g = Ok sl /\ length sl = length (g_players g).
Proof.
  intros H1 H2 HR. unfold init_states.
  destruct (init_states_from_ok (length (g_players g)) (g_finals g)
              (combine (combine (g_players g) (g_trans g)) (g_rewards g)) 0) as (sl & E & Hlen).
  - apply Forall_forall. intros [[k row] r] Hin. cbn [fst snd].
    apply in_combine_l in Hin. apply in_combine_r in Hin.
    unfold rows_ok in HR. rewrite Forall_forall in HR. apply HR. assumption.
  - rewrite E. cbn [bind]. rewrite Hlen, !combine_length, H1, H2, !Nat.min_id, Nat.eqb_refl.
    exists sl. split; [reflexivity|]. rewrite Hlen, !combine_length, H1, H2, !Nat.min_id. reflexivity.
Qed.

Lemma existsb_false_Forall {A} (p : A -> bool) l : Forall (fun x => p x = false) l -> existsb p l = false.
Proof. induction 1 as [|x r Hx _ IH]; cbn [existsb]; [reflexivity|]. rewrite Hx, IH. reflexivity. Qed.

Lemma check_game_ok (g : game (T:=T)) f :
  length (g_trans g) = length (g_players g) -> length (g_rewards g) = length (g_players g) ->
  0 < length (g_players g) ->
  Forall (fun r => ltb K r (zero K) = false) (g_rewards g) ->
  g_finals g = [f] -> f < length (g_players g) ->
  check_game K g = Ok tt.
Proof.
  intros H1 H2 Hpos Hrw Hf Hfr. unfold check_game.
  rewrite H1, H2, Nat.eqb_refl. cbn [negb].
  destruct (g_rewards g) as [|r0 rs] eqn:E; [cbn in H2; lia|].
  rewrite (existsb_false_Forall _ _ Hrw). rewrite Hf. cbn [existsb].
  rewrite orb_false_r. destruct (Nat.leb_spec (length (g_players g)) f); [lia|reflexivity].
Qed.

End Validation.

(** * Every cell of every builder is a non-empty list of transitions into the state range *)
Section Cells.
Context {T : Type} (K : ops T).
Variables (L W : nat).
Notation n := (L * W).
Notation tr := (trans (T:=T)).

Definition cell_ok (N : nat) (row : list tr) : Prop := row <> [] /\ Forall (fun t => dst t < N) row.

Lemma py_pred_mod_lt j : 0 < W -> py_pred_mod j W < W.
Proof. intros HW. destruct j as [|j]; cbn [py_pred_mod]; [lia|]. apply Nat.mod_upper_bound. lia. Qed.

Lemma py_pred_mod_spec j : j < W -> py_pred_mod j W = (j + W - 1) mod W.
Proof.
  intros Hj. destruct j as [|j]; cbn [py_pred_mod].
  - replace (0 + W - 1) with (W - 1) by lia. rewrite Nat.mod_small by lia. reflexivity.
  - replace (S j + W - 1) with (j + 1 * W) by lia. rewrite Nat.mod_add by lia. reflexivity.
Qed.

Ltac cell_facts i j :=
  pose proof (cell_lt L W i j);
  try (pose proof (cell_lt L W (i + 1) j));
  try (pose proof (cell_lt L W i (W - 1)));
  try (pose proof (cell_lt L W i 0));
  try (pose proof (cell_lt L W i (j - 1)));
  try (pose proof (cell_lt L W i (j + 1))).
Ltac row_ok := split; [discriminate | repeat constructor; cbn [dst pl pb fst snd]; lia].

Lemma player_two_cell_ok N moves o1 o2 i j :
  o1 + n <= N -> o2 + n <= N -> i < L -> j < W -> cell_ok N (player_two_cell K W moves o1 o2 i j).
Proof.
  intros H1 H2 Hi Hj. cell_facts i j. unfold player_two_cell. destruct (negb _); row_ok.
Qed.

Lemma player_one_down_cell_ok N o ws i j :
  o + n <= N -> (forall w, ws = Some w -> w < N) -> i < L -> j < W ->
  cell_ok N (player_one_down_cell K L W o ws i j).
Proof.
  intros H1 H2 Hi Hj. cell_facts i j. unfold player_one_down_cell.
  destruct (not_ws ws); [row_ok|]. destruct (Nat.ltb_spec i (L - 1)); [row_ok|].
  destruct ws as [w|]; [specialize (H2 w eq_refl)|]; row_ok.
Qed.

Lemma player_one_left_right_cell_ok N moves ol or_ i j :
  ol + n <= N -> or_ + n <= N -> 0 < N -> moves i j <= 3 -> i < L -> j < W ->
  cell_ok N (player_one_left_right_cell K W moves ol or_ i j).
Proof.
  intros H1 H2 H0 Hm Hi Hj. cell_facts i j.
  pose proof (cell_lt L W i (py_pred_mod j W)). pose proof (py_pred_mod_lt j).
  pose proof (cell_lt L W i ((j + 1) mod W)). pose proof (Nat.mod_upper_bound (j + 1) W).
  unfold player_one_left_right_cell.
  destruct (negb (ol =? or_)); destruct (moves i j) as [|[|[|[|k]]]]; try lia; cbn [by_move]; row_ok.
Qed.

Lemma prob_tile_break_cell_ok N p loose o lose i j :
  o + n <= N -> lose < N -> i < L -> j < W -> cell_ok N (prob_tile_break_cell K W p loose o lose i j).
Proof.
  intros H1 H2 Hi Hj. cell_facts i j. unfold prob_tile_break_cell. destruct (_ =? 1); row_ok.
Qed.

Lemma prob_robot_down_break_cell_ok N p o win i j :
  o + n <= N -> win < N -> i < L -> j < W -> cell_ok N (prob_robot_down_break_cell K L W p o win i j).
Proof.
  intros H1 H2 Hi Hj. cell_facts i j. unfold prob_robot_down_break_cell.
  destruct (Nat.ltb_spec i (L - 1)); row_ok.
Qed.

Lemma prob_robot_left_break_cell_ok N p o i j :
  o + n <= N -> i < L -> j < W -> cell_ok N (prob_robot_left_break_cell K W p o i j).
Proof.
  intros H1 Hi Hj. cell_facts i j. unfold prob_robot_left_break_cell.
  destruct (Nat.eqb_spec j 0); row_ok.
Qed.

Lemma prob_robot_right_break_cell_ok N p o i j :
  o + n <= N -> i < L -> j < W -> cell_ok N (prob_robot_right_break_cell K W p o i j).
Proof.
  intros H1 Hi Hj. cell_facts i j. unfold prob_robot_right_break_cell.
  destruct (Nat.eqb_spec j (W - 1)); row_ok.
Qed.

Lemma player_one_down_left_right_cell_ok N moves od ol or_ i j :
  od + n <= N -> ol + n <= N -> or_ + n <= N -> moves i j <= 3 -> i < L -> j < W ->
  cell_ok N (player_one_down_left_right_cell K W moves od ol or_ i j).
Proof.
  intros H1 H2 H3 Hm Hi Hj. cell_facts i j. unfold player_one_down_left_right_cell.
  destruct (moves i j) as [|[|[|[|k]]]]; try lia; cbn [by_move]; row_ok.
Qed.

Lemma prob_light_break_cell_ok N p ook obr i j :
  ook + n <= N -> obr + n <= N -> i < L -> j < W -> cell_ok N (prob_light_break_cell K W p ook obr i j).
Proof.
  intros H1 H2 Hi Hj. cell_facts i j. unfold prob_light_break_cell. row_ok.
Qed.

End Cells.

(** * The three games pass check_game and init_states *)
Section GenValid.
Context {T : Type} (K : ops T).
Variables (L W : nat) (moves : nat -> nat -> nat) (rewards : nat -> nat -> T)
          (loose : nat -> nat -> nat) (ptb prb plb : T).
Hypothesis HL : 1 <= L.
Hypothesis HW : 1 <= W.
Hypothesis Hmoves : forall i j, i < L -> j < W -> moves i j <= 3.
Notation n := (L * W).

Lemma n_pos : 1 <= n.
Proof. nia. Qed.

Ltac cells_ok :=
  unfold cells_A, cells_A_with, cells_B, cells_C;
  repeat (apply Forall_cons; [intros i j Hi Hj|]); [..|apply Forall_nil].

Lemma gen_A_rows_ok : rows_ok (n * 4 + 2) (g_trans (gen_A K L W moves rewards loose ptb)).
Proof.
  pose proof n_pos. rewrite gen_A_trans. unfold rows_ok. apply Forall_groups.
  - cells_ok.
    + apply (player_two_cell_ok K L W); try assumption; lia.
    + apply (player_one_down_cell_ok K L W); try assumption; [lia|]. intros w E. injection E as <-. lia.
    + apply (player_one_left_right_cell_ok K L W); try assumption; try lia. apply Hmoves; assumption.
    + apply (prob_tile_break_cell_ok K L W); try assumption; lia.
  - repeat constructor; try discriminate; cbn [dst pb]; lia.
Qed.

Lemma gen_B_rows_ok : rows_ok (n * 7 + 2) (g_trans (gen_B K L W moves rewards loose ptb prb)).
Proof.
  pose proof n_pos. rewrite gen_B_trans. unfold rows_ok. apply Forall_groups.
  - cells_ok.
    + apply (player_two_cell_ok K L W); try assumption; lia.
    + apply (player_one_down_cell_ok K L W); try assumption; [lia|]. intros w E. discriminate.
    + apply (player_one_left_right_cell_ok K L W); try assumption; try lia. apply Hmoves; assumption.
    + apply (prob_tile_break_cell_ok K L W); try assumption; lia.
    + apply (prob_robot_down_break_cell_ok K L W); try assumption; lia.
    + apply (prob_robot_left_break_cell_ok K L W); try assumption; lia.
    + apply (prob_robot_right_break_cell_ok K L W); try assumption; lia.
  - repeat constructor; try discriminate; cbn [dst pb]; lia.
Qed.

Lemma gen_C_rows_ok : rows_ok (n * 10 + 2) (g_trans (gen_C K L W moves rewards loose ptb prb plb)).
Proof.
  pose proof n_pos. rewrite gen_C_trans. unfold rows_ok. apply Forall_groups.
  - cells_ok.
    + apply (player_two_cell_ok K L W); try assumption; lia.
    + apply (player_one_down_cell_ok K L W); try assumption; [lia|]. intros w E. discriminate.
    + apply (player_one_left_right_cell_ok K L W); try assumption; try lia. apply Hmoves; assumption.
    + apply (player_one_down_left_right_cell_ok K L W); try assumption; try lia. apply Hmoves; assumption.
    + apply (prob_tile_break_cell_ok K L W); try assumption; lia.
    + apply (prob_robot_down_break_cell_ok K L W); try assumption; lia.
    + apply (prob_robot_left_break_cell_ok K L W); try assumption; lia.
    + apply (prob_robot_right_break_cell_ok K L W); try assumption; lia.
    + apply (prob_light_break_cell_ok K L W); try assumption; lia.
    + apply (prob_light_break_cell_ok K L W); try assumption; lia.
  - repeat constructor; try discriminate; cbn [dst pb]; lia.
Qed.

End GenValid.

(** * C11: lengths, validation, absorbing end states (generic) *)
Section GenFacts.
Context {T : Type} (K : ops T).
Variables (L W : nat) (moves : nat -> nat -> nat) (rewards : nat -> nat -> T)
          (loose : nat -> nat -> nat) (ptb prb plb : T).
Notation n := (L * W).
Notation gA := (gen_A K L W moves rewards loose ptb).
Notation gB := (gen_B K L W moves rewards loose ptb prb).
Notation gC := (gen_C K L W moves rewards loose ptb prb plb).

Definition lengths_are (g : game (T:=T)) (N : nat) : Prop :=
  length (g_rewards g) = N /\ length (g_players g) = N /\ length (g_trans g) = N.

Lemma gen_A_lengths : lengths_are gA (4 * (L * W) + 2) /\ g_finals gA = [4 * (L * W) + 1].
Proof.
  unfold lengths_are. rewrite gen_A_rewards, gen_A_players, gen_A_trans, gen_A_finals.
  rewrite my_rewards_length, my_players_length, groups_length. cbn [length cells_A cells_A_with tail_of].
  repeat split; try lia. f_equal. lia.
Qed.
Lemma gen_B_lengths : lengths_are gB (7 * (L * W) + 2) /\ g_finals gB = [7 * (L * W) + 1].
Proof.
  unfold lengths_are. rewrite gen_B_rewards, gen_B_players, gen_B_trans, gen_B_finals.
  rewrite my_rewards_length, my_players_length, groups_length. cbn [length cells_B tail_of].
  repeat split; try lia. f_equal. lia.
Qed.
Lemma gen_C_lengths : lengths_are gC (10 * (L * W) + 2) /\ g_finals gC = [10 * (L * W) + 1].
Proof.
  unfold lengths_are. rewrite gen_C_rewards, gen_C_players, gen_C_trans, gen_C_finals.
  rewrite my_rewards_length, my_players_length, groups_length. cbn [length cells_C tail_of].
  repeat split; try lia. f_equal. lia.
Qed.

(* the last two states: losing (absorbing, not final) and winning (absorbing, the only final) *)
Definition absorbing_ends (g : game (T:=T)) (N : nat) : Prop :=
  nth (N - 2) (g_trans g) [] = [mkT ""%string (one K) (N - 2)] /\
  nth (N - 1) (g_trans g) [] = [mkT ""%string (one K) (N - 1)] /\
  nth (N - 2) (g_players g) PR = PR /\ nth (N - 1) (g_players g) PR = PR /\
  g_finals g = [N - 1] /\ mem_nat (N - 2) (g_finals g) = false /\ mem_nat (N - 1) (g_finals g) = true.

Lemma mem_single_neq a b : a <> b -> mem_nat a [b] = false.
Proof. intros H. unfold mem_nat. cbn. rewrite orb_false_r. apply Nat.eqb_neq. assumption. Qed.
Lemma mem_single_eq a : mem_nat a [a] = true.
Proof. unfold mem_nat. cbn. rewrite Nat.eqb_refl. reflexivity. Qed.

Lemma ends_players a b total : total = 1 + a + b ->
  nth (total * n) (my_players L W a b) PR = PR /\ nth (total * n + 1) (my_players L W a b) PR = PR.
Proof.
  intros ->. rewrite !my_players_nth.
  split.
  - destruct (Nat.ltb_spec ((1 + a + b) * n) n); [nia|].
    destruct (Nat.ltb_spec ((1 + a + b) * n) (n + n * a)); [nia|reflexivity].
  - destruct (Nat.ltb_spec ((1 + a + b) * n + 1) n); [nia|].
    destruct (Nat.ltb_spec ((1 + a + b) * n + 1) (n + n * a)); [nia|reflexivity].
Qed.

Lemma ends_generic (g : game (T:=T)) fs total a b :
  g_trans g = chain (map (grid L W) fs) (tail_of K L W total) -> length fs = total ->
  g_players g = my_players L W a b -> total = 1 + a + b -> g_finals g = [n * total + 1] ->
  absorbing_ends g (total * n + 2).
Proof.
  intros Ht Hl Hp Htot Hf. unfold absorbing_ends. rewrite Ht, Hp, Hf.
  replace (total * n + 2 - 2) with (length fs * n + 0) by (rewrite Hl; lia).
  replace (total * n + 2 - 1) with (length fs * n + 1) by (rewrite Hl; lia).
  rewrite !nth_groups_tail. cbn [nth tail_of]. rewrite Hl.
  destruct (ends_players a b total Htot) as [E1 E2].
  replace (total * n + 0) with (total * n) by lia. rewrite E1, E2.
  replace (n * total) with (total * n) by lia. unfold pb.
  repeat split; try reflexivity; [apply mem_single_neq; lia|apply mem_single_eq].
Qed.

Lemma gen_A_ends : absorbing_ends gA (4 * (L * W) + 2).
Proof. apply (ends_generic gA (cells_A K L W moves loose ptb) 4 2 1); reflexivity. Qed.
Lemma gen_B_ends : absorbing_ends gB (7 * (L * W) + 2).
Proof. apply (ends_generic gB (cells_B K L W moves loose ptb prb) 7 2 4); reflexivity. Qed.
Lemma gen_C_ends : absorbing_ends gC (10 * (L * W) + 2).
Proof. apply (ends_generic gC (cells_C K L W moves loose ptb prb plb) 10 3 6); reflexivity. Qed.

End GenFacts.

Section GenValidates.
Context {T : Type} (K : ops T).
Variables (L W : nat) (moves : nat -> nat -> nat) (rewards : nat -> nat -> T)
          (loose : nat -> nat -> nat) (ptb prb plb : T).
Hypothesis HL : 1 <= L.
Hypothesis HW : 1 <= W.
Hypothesis Hmoves : forall i j, i < L -> j < W -> moves i j <= 3.
Hypothesis Hzero : ltb K (zero K) (zero K) = false.
Hypothesis Hrewards : forall i j, i < L -> j < W -> ltb K (rewards i j) (zero K) = false.
Notation n := (L * W).

Definition validates (g : game (T:=T)) (N : nat) : Prop :=
  check_game K g = Ok tt /\ exists sl, init_states K g = Ok sl /\ length sl = N.

Lemma my_rewards_nonneg total :
  Forall (fun r => ltb K r (zero K) = false) (my_rewards K L W rewards total).
Proof.
  unfold my_rewards. apply Forall_app. split; [apply Forall_grid; assumption|].
  apply Forall_app. split; [|repeat constructor; assumption].
  apply Forall_forall. intros x Hx. apply repeat_spec in Hx. subst x. assumption.
Qed.

Lemma validates_generic (g : game (T:=T)) N total f :
  lengths_are g N -> 0 < N -> g_rewards g = my_rewards K L W rewards total ->
  g_finals g = [f] -> f < N -> rows_ok N (g_trans g) -> validates g N.
Proof.
  intros (H1 & H2 & H3) Hpos Hr Hf HfN Hrows. unfold validates. split.
  - apply (check_game_ok K g f); try congruence; try lia.
    rewrite Hr. apply my_rewards_nonneg.
  - assert (Hr' : rows_ok (length (g_players g)) (g_trans g)) by (rewrite H2; assumption).
    destruct (init_states_ok K g ltac:(congruence) ltac:(congruence) Hr') as (sl & E & Hlen).
    exists sl. split; [assumption|congruence].
Qed.

Lemma gen_A_validates : validates (gen_A K L W moves rewards loose ptb) (4 * (L * W) + 2).
Proof.
  destruct (gen_A_lengths K L W moves rewards loose ptb) as [Hl Hf].
  apply (validates_generic _ _ 4 (4 * n + 1)); try assumption; try lia; try reflexivity.
  replace (4 * n + 2) with (n * 4 + 2) by lia. apply gen_A_rows_ok; assumption.
Qed.
Lemma gen_B_validates : validates (gen_B K L W moves rewards loose ptb prb) (7 * (L * W) + 2).
Proof.
  destruct (gen_B_lengths K L W moves rewards loose ptb prb) as [Hl Hf].
  apply (validates_generic _ _ 7 (7 * n + 1)); try assumption; try lia; try reflexivity.
  replace (7 * n + 2) with (n * 7 + 2) by lia. apply gen_B_rows_ok; assumption.
Qed.
Lemma gen_C_validates : validates (gen_C K L W moves rewards loose ptb prb plb) (10 * (L * W) + 2).
Proof.
  destruct (gen_C_lengths K L W moves rewards loose ptb prb plb) as [Hl Hf].
  apply (validates_generic _ _ 10 (10 * n + 1)); try assumption; try lia; try reflexivity.
  replace (10 * n + 2) with (n * 10 + 2) by lia. apply gen_C_rows_ok; assumption.
Qed.

End GenValidates.

(** * Every state index is a cell of a group, or one of the two end states *)
Lemma state_decomp L W total s : s < total * (L * W) + 2 ->
  (exists g i j, g < total /\ i < L /\ j < W /\ s = g * (L * W) + i * W + j)
  \/ s = total * (L * W) \/ s = total * (L * W) + 1.
Proof.
  intros Hs. destruct (Nat.lt_ge_cases s (total * (L * W))) as [H|H]; [left|right; lia].
  assert (Hn : L * W <> 0) by (intros E; rewrite E in H; lia).
  destruct (cell_decomp L W (s mod (L * W))) as (i & j & Hi & Hj & E).
  { apply Nat.mod_upper_bound. assumption. }
  exists (s / (L * W)), i, j. repeat split; try assumption.
  - apply Nat.div_lt_upper_bound; [assumption|lia].
  - rewrite <- Nat.add_assoc, <- E. rewrite (Nat.div_mod s (L * W)) at 1 by assumption. lia.
Qed.
