(** Lemmas about the board generator model (Model/Board.v): list layout (element g*n + i*W + j of
    the concatenation of nested-loop groups), lengths, and the facts behind C11. *)
From Coq Require Import String List Arith Bool Lia.
From CR Require Import Model.Num Model.Outcome Model.Graph Model.Game Model.Board.
Import ListNotations.

(** * Nested-loop lists *)

Lemma grid_length {A} L W (f : nat -> nat -> A) : length (grid L W f) = L * W.
Proof.
  unfold grid. generalize 0 at 2. induction L as [|L IH]; intros s; cbn [seq flat_map]; [reflexivity|].
  rewrite app_length, map_length, seq_length, IH. lia.
Qed.

Lemma flat_map_const_nth {A B} (g : B -> list A) (W : nat) (l : list B) (d : A) i j :
  (forall b, In b l -> length (g b) = W) -> i < length l -> j < W ->
  forall db, nth (i * W + j) (flat_map g l) d = nth j (g (nth i l db)) d.
Proof.
  revert i. induction l as [|b l IH]; intros i Hlen Hi Hj db; [cbn in Hi; lia|].
  cbn [flat_map]. destruct i as [|i].
  - cbn [nth Nat.mul Nat.add]. rewrite app_nth1; [reflexivity|]. rewrite Hlen by (left; reflexivity). exact Hj.
  - rewrite app_nth2; rewrite Hlen by (left; reflexivity); [|lia].
    replace (S i * W + j - W) with (i * W + j) by lia.
    cbn [nth]. apply IH; [intros; apply Hlen; right; assumption | cbn in Hi; lia | exact Hj].
Qed.

Lemma nth_grid {A} L W (f : nat -> nat -> A) d i j :
  i < L -> j < W -> nth (i * W + j) (grid L W f) d = f i j.
Proof.
  intros Hi Hj. unfold grid.
  rewrite (flat_map_const_nth _ W _ d i j) with (db := 0).
  - rewrite seq_nth by exact Hi. rewrite (nth_indep _ d (f (0+i) 0)) by (rewrite map_length, seq_length; exact Hj).
    rewrite map_nth, seq_nth by exact Hj. reflexivity.
  - intros b _. rewrite map_length, seq_length. reflexivity.
  - rewrite seq_length. exact Hi.
  - exact Hj.
Qed.

Lemma Forall_grid {A} (P : A -> Prop) L W (f : nat -> nat -> A) :
  (forall i j, i < L -> j < W -> P (f i j)) -> Forall P (grid L W f).
Proof.
  intros H. unfold grid. apply Forall_forall. intros x Hx.
  apply in_flat_map in Hx. destruct Hx as (i & Hi & Hx). apply in_map_iff in Hx.
  destruct Hx as (j & E & Hj). subst x. apply in_seq in Hi. apply in_seq in Hj. apply H; lia.
Qed.

Lemma cell_lt L W i j : i < L -> j < W -> i * W + j < L * W.
Proof. intros Hi Hj. nia. Qed.

(* every index below L*W is a cell *)
Lemma cell_decomp L W c : c < L * W -> exists i j, i < L /\ j < W /\ c = i * W + j.
Proof.
  intros H. assert (W <> 0) by (intros ->; lia).
  exists (c / W), (c mod W). split; [|split].
  - apply Nat.div_lt_upper_bound; [assumption|lia].
  - apply Nat.mod_upper_bound. assumption.
  - rewrite (Nat.div_mod c W) at 1 by assumption. lia.
Qed.

(** * Concatenation of equal-length groups, right-nested as the writers build it *)
Fixpoint chain {A} (ls : list (list A)) (tail : list A) : list A :=
  match ls with [] => tail | l :: r => l ++ chain r tail end.

Lemma chain_length {A} (ls : list (list A)) tail n :
  Forall (fun l => length l = n) ls -> length (chain ls tail) = length ls * n + length tail.
Proof.
  induction 1 as [|l r Hl _ IH]; cbn [chain length]; [reflexivity|].
  rewrite app_length, IH, Hl. lia.
Qed.

Lemma nth_chain {A} (ls : list (list A)) tail n d g r :
  Forall (fun l => length l = n) ls -> g < length ls -> r < n ->
  nth (g * n + r) (chain ls tail) d = nth r (nth g ls []) d.
Proof.
  intros HF. revert g. induction HF as [|l rest Hl _ IH]; intros g Hg Hr; [cbn in Hg; lia|].
  cbn [chain]. destruct g as [|g].
  - cbn [Nat.mul Nat.add nth]. apply app_nth1. lia.
  - rewrite app_nth2 by (rewrite Hl; lia). rewrite Hl.
    replace (S g * n + r - n) with (g * n + r) by lia.
    cbn [nth]. apply IH; [cbn in Hg; lia|assumption].
Qed.

Lemma nth_chain_tail {A} (ls : list (list A)) tail n d r :
  Forall (fun l => length l = n) ls ->
  nth (length ls * n + r) (chain ls tail) d = nth r tail d.
Proof.
  induction 1 as [|l rest Hl _ IH]; cbn [chain length]; [reflexivity|].
  rewrite app_nth2 by (rewrite Hl; lia). rewrite Hl.
  replace (S (length rest) * n + r - n) with (length rest * n + r) by lia. exact IH.
Qed.

(* the groups are nested-loop lists over the same board *)
Lemma grids_all_length {A} L W (fs : list (nat -> nat -> A)) :
  Forall (fun l => length l = L * W) (map (grid L W) fs).
Proof. apply Forall_forall. intros l Hl. apply in_map_iff in Hl. destruct Hl as (f & <- & _). apply grid_length. Qed.

Lemma nth_groups {A} L W (fs : list (nat -> nat -> A)) tail d g i j :
  g < length fs -> i < L -> j < W ->
  nth (g * (L * W) + i * W + j) (chain (map (grid L W) fs) tail) d = nth g fs (fun _ _ => d) i j.
Proof.
  intros Hg Hi Hj. rewrite <- Nat.add_assoc.
  rewrite (nth_chain _ tail (L * W)); [|apply grids_all_length|rewrite map_length; assumption|apply cell_lt; assumption].
  rewrite (nth_indep _ [] (grid L W (fun _ _ => d))) by (rewrite map_length; assumption).
  rewrite map_nth. apply nth_grid; assumption.
Qed.

Lemma nth_groups_tail {A} L W (fs : list (nat -> nat -> A)) tail d r :
  nth (length fs * (L * W) + r) (chain (map (grid L W) fs) tail) d = nth r tail d.
Proof.
  rewrite <- (map_length (grid L W) fs). apply nth_chain_tail. apply grids_all_length.
Qed.

Lemma groups_length {A} L W (fs : list (nat -> nat -> A)) tail :
  length (chain (map (grid L W) fs) tail) = length fs * (L * W) + length tail.
Proof. rewrite (chain_length _ _ (L * W)) by apply grids_all_length. rewrite map_length. reflexivity. Qed.

Lemma Forall_groups {A} (P : A -> Prop) L W (fs : list (nat -> nat -> A)) tail :
  Forall (fun f => forall i j, i < L -> j < W -> P (f i j)) fs -> Forall P tail ->
  Forall P (chain (map (grid L W) fs) tail).
Proof.
  intros HF HT. induction HF as [|f r Hf _ IH]; cbn [map chain]; [assumption|].
  apply Forall_app. split; [apply Forall_grid; assumption|assumption].
Qed.

(** * repeat *)
Lemma nth_repeat_same {A} (x : A) k s : nth s (repeat x k) x = x.
Proof. revert s. induction k as [|k IH]; intros [|s]; cbn; auto. Qed.
