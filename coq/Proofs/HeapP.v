(** Proofs about the store layer: frame (solving only ever allocates), refinement of the pure
    pipeline, repeatability.  Generic in the number operations. *)
From Coq Require Import String List Arith Bool Lia.
From CR Require Import Model.Num Model.Outcome Model.Graph Model.Game Model.Heap.
Import ListNotations.

(** * lists *)
Lemma h_upd_length {A} (l : list A) i x : length (upd l i x) = length l.
Proof. revert i. induction l as [|h t IH]; intros [|i]; cbn; auto. Qed.

Lemma h_map_upd {A B} (f : A -> B) (l : list A) i x : map f (upd l i x) = upd (map f l) i (f x).
Proof. revert i. induction l as [|h t IH]; intros [|i]; cbn; try reflexivity. rewrite IH. reflexivity. Qed.

Lemma h_upd_same {A} (l : list A) i d : upd l i (nth i l d) = l.
Proof. revert i. induction l as [|h t IH]; intros [|i]; cbn; try reflexivity. rewrite IH. reflexivity. Qed.

Lemma bind_ok_id {A} (o : outcome A) : bind o (fun x => Ok x) = o.
Proof. destruct o; reflexivity. Qed.

Lemma fold_sim {A B X} (R : A -> B -> Prop) (P : X -> Prop) (f : A -> X -> A) (g : B -> X -> B) :
  (forall a b x, R a b -> P x -> R (f a x) (g b x)) ->
  forall l a b, Forall P l -> R a b -> R (fold_left f l a) (fold_left g l b).
Proof.
  intros Hstep l. induction l as [|x l IH]; intros a b HP HR; cbn; [exact HR|].
  inversion HP; subst. apply IH; [assumption|]. apply Hstep; assumption.
Qed.

Lemma fold_inv {A X} (I : A -> Prop) (f : A -> X -> A) :
  (forall a x, I a -> I (f a x)) -> forall l a, I a -> I (fold_left f l a).
Proof. intros H l. induction l as [|x l IH]; intros a Ha; cbn; auto. Qed.

Section HeapP.
Context {T : Type}.
Variable K : ops T.
Notation trans := (@trans T).
Notation node := (@node T).
Notation hnode := (@hnode T).
Notation store := (@store T).
Notation rd := (@rd T).
Notation view1 := (@view1 T).
Notation view := (@view T).

(** * the store only grows *)
Definition ext (st st' : store) : Prop := exists e, st' = st ++ e.

Lemma ext_refl st : ext st st.
Proof. exists []. rewrite app_nil_r. reflexivity. Qed.
Lemma ext_trans a b c : ext a b -> ext b c -> ext a c.
Proof. intros [e1 ->] [e2 ->]. exists (e1 ++ e2). rewrite app_assoc. reflexivity. Qed.
Lemma ext_alloc st v : ext st (fst (alloc st v)).
Proof. exists [v]. reflexivity. Qed.
Lemma ext_rebind st h v : ext st (fst (rebind st h v)).
Proof. exists [v]. reflexivity. Qed.
Lemma ext_length st st' : ext st st' -> length st <= length st'.
Proof. intros [e ->]. rewrite app_length. lia. Qed.

Lemma rd_app st e l : l < length st -> rd (st ++ e) l = rd st l.
Proof. intros H. unfold Heap.rd. apply app_nth1. exact H. Qed.
Lemma rd_ext st st' l : ext st st' -> l < length st -> rd st' l = rd st l.
Proof. intros [e ->]. apply rd_app. Qed.
Lemma rd_new st v : rd (st ++ [v]) (length st) = v.
Proof. unfold Heap.rd. rewrite app_nth2 by lia. rewrite Nat.sub_diag. reflexivity. Qed.

Lemma sbind_ext {A B} st (m : store * outcome A) (f : store -> A -> store * outcome B) :
  ext st (fst m) -> (forall st1 a, ext st st1 -> ext st (fst (f st1 a))) -> ext st (fst (sbind m f)).
Proof. intros Hm Hf. destruct m as [st1 [a| | |]]; cbn in *; auto. Qed.

Lemma mapS_ext {A} (f : store -> hnode -> A -> store * hnode) :
  (forall st h a, ext st (fst (f st h a))) ->
  forall l st, ext st (fst (mapS f st l)).
Proof.
  intros Hf l. induction l as [|[h a] l IH]; intros st; cbn; [apply ext_refl|].
  pose proof (Hf st h a) as H1. destruct (f st h a) as [st1 h1]. cbn in H1.
  pose proof (IH st1) as H2. destruct (mapS f st1 l) as [st2 hs]. cbn in *.
  eapply ext_trans; eassumption.
Qed.

Lemma prune_reach_node_ext st h s : ext st (fst (prune_reach_node_H st h s)).
Proof.
  unfold prune_reach_node_H. destruct (nk (hbody h)); try apply ext_refl.
  destruct s; [apply ext_rebind|apply ext_refl].
Qed.

Lemma prune_paths_node_ext sl st h u : ext st (fst (prune_paths_node_H K sl st h u)).
Proof.
  unfold prune_paths_node_H. destruct (nk (hbody h)); try apply ext_refl; try apply ext_rebind.
  destruct (_ =? _); [apply ext_refl|apply ext_rebind].
Qed.

Lemma prune_paths_H_ext sl st hs : ext st (fst (prune_paths_H K sl st hs)).
Proof.
  unfold prune_paths_H.
  pose proof (mapS_ext (prune_paths_node_H K sl) (prune_paths_node_ext sl) (map (fun h => (h, tt)) hs) st) as H.
  destruct (mapS _ _ _) as [st' hs']. exact H.
Qed.

Lemma prune_states_node_ext reachable st h idx :
  ext st (fst (prune_states_node_H reachable st h idx)).
Proof. unfold prune_states_node_H. destruct (ps_clear _ _ _); [apply ext_rebind|apply ext_refl]. Qed.

Lemma prune_states_round_ext st hs : ext st (fst (fst (prune_states_round_H st hs))).
Proof. unfold prune_states_round_H. cbn [fst]. apply mapS_ext. intros. apply prune_states_node_ext. Qed.

Lemma prune_states_H_ext fuel : forall old st hs, ext st (fst (prune_states_H fuel old st hs)).
Proof.
  induction fuel as [|f IH]; intros old st hs; cbn; [apply ext_refl|].
  pose proof (prune_states_round_ext st hs) as H.
  destruct (_ && _); cbn; [exact H|]. eapply ext_trans; [exact H|apply IH].
Qed.

(* the whole pipeline, for ANY prune_paths step that only allocates *)
Lemma solve_gen_ext (pp : pp_step) :
  (forall sl st hs, ext st (fst (pp sl st hs))) ->
  forall fuel st hg prune, ext st (fst (solve_gen K pp fuel st hg prune)).
Proof.
  intros Hpp fuel st hg prune. unfold solve_gen.
  apply sbind_ext; [apply ext_refl|]. intros st1 _ E1.
  apply sbind_ext; [exact E1|]. intros st2 hs0 E2.
  destruct (hg_finals hg); [exact E2|].
  apply sbind_ext; [exact E2|]. intros st3 srf E3.
  apply sbind_ext; [exact E3|]. intros st4 r1 E4.
  apply sbind_ext; [exact E4|]. intros st5 sl1 E5.
  pose proof (mapS_ext prune_reach_node_H prune_reach_node_ext
     (combine (put_fields sl1 hs0) (strats_reach K (view st5 (put_fields sl1 hs0)))) st5) as E6.
  unfold prune_reachability_H. destruct (mapS prune_reach_node_H st5 _) as [st6 hs2]. cbn in E6.
  assert (E6' : ext st st6) by (eapply ext_trans; eassumption).
  apply sbind_ext.
  - destruct prune; [|exact E6'].
    apply sbind_ext; [eapply ext_trans; [exact E6'|apply Hpp]|].
    intros st7 hs3 E7. eapply ext_trans; [exact E7|apply prune_states_H_ext].
  - intros st8 hs4 E8. apply sbind_ext; [exact E8|]. intros st9 r2 E9. exact E9.
Qed.

Theorem solve_H_ext fuel st hg prune : ext st (fst (solve_H K fuel st hg prune)).
Proof. apply solve_gen_ext. apply prune_paths_H_ext. Qed.

(* every object that existed before the call is unchanged afterwards - whatever the outcome *)
Theorem solve_H_frame fuel st hg prune l :
  l < length st -> rd (fst (solve_H K fuel st hg prune)) l = rd st l.
Proof. intros H. apply rd_ext; [apply solve_H_ext|exact H]. Qed.

Lemma read_game_ext st st' hg : rows_valid st hg -> ext st st' -> read_game st' hg = read_game st hg.
Proof.
  intros Hv E. unfold read_game. f_equal. apply map_ext_in. intros l Hl.
  apply rd_ext; [exact E|]. unfold rows_valid in Hv. rewrite Forall_forall in Hv. apply Hv, Hl.
Qed.

Lemma rows_valid_ext st st' hg : rows_valid st hg -> ext st st' -> rows_valid st' hg.
Proof.
  unfold rows_valid. intros Hv E. apply ext_length in E. eapply Forall_impl; [|exact Hv].
  cbn. intros; lia.
Qed.

Theorem solve_H_description_intact fuel st hg prune :
  rows_valid st hg -> read_game (fst (solve_H K fuel st hg prune)) hg = read_game st hg.
Proof. intros Hv. apply read_game_ext; [exact Hv|apply solve_H_ext]. Qed.

(** * views *)
Definition locs_ok (st : store) (hs : list hnode) : Prop := Forall (fun h => hloc h < length st) hs.

Lemma view1_ext st st' h : ext st st' -> hloc h < length st -> view1 st' h = view1 st h.
Proof. intros E H. unfold Heap.view1. rewrite (rd_ext st st' _ E H). reflexivity. Qed.

Lemma view_ext st st' hs : ext st st' -> locs_ok st hs -> view st' hs = view st hs.
Proof.
  intros E H. unfold Heap.view. apply map_ext_in. intros h Hh. apply view1_ext; [exact E|].
  unfold locs_ok in H. rewrite Forall_forall in H. apply H, Hh.
Qed.

Lemma locs_ok_ext st st' hs : ext st st' -> locs_ok st hs -> locs_ok st' hs.
Proof.
  intros E H. apply ext_length in E. unfold locs_ok in *. eapply Forall_impl; [|exact H]. cbn. intros; lia.
Qed.

Lemma view_length st hs : length (view st hs) = length hs.
Proof. apply map_length. Qed.

Lemma set_nxt_set_nxt (n : node) a b : set_nxt (set_nxt n a) b = set_nxt n b.
Proof. reflexivity. Qed.
Lemma set_nxt_eta (n : node) : set_nxt n (nxt n) = n.
Proof. destruct n; reflexivity. Qed.

Lemma view_nxt st hs : map nxt (view st hs) = map (fun h => rd st (hloc h)) hs.
Proof. unfold Heap.view. rewrite map_map. reflexivity. Qed.

(* writing the scalar fields back loses nothing when the loop did not touch next_states *)
Lemma view_put_fields st : forall sl hs,
  map nxt sl = map (fun h => rd st (hloc h)) hs -> view st (put_fields sl hs) = sl.
Proof.
  induction sl as [|n sl IH]; intros [|h hs] H; cbn in *; try discriminate; [reflexivity|].
  injection H as H1 H2. f_equal; [|apply IH; exact H2].
  unfold Heap.view1. cbn. rewrite <- H1. destruct n; reflexivity.
Qed.

Lemma put_fields_locs st : forall sl hs,
  length sl = length hs -> locs_ok st hs -> locs_ok st (put_fields sl hs).
Proof.
  induction sl as [|n sl IH]; intros [|h hs] HL H; cbn in *; try discriminate; [constructor|].
  inversion H; subst. constructor; [assumption|]. apply IH; [lia|assumption].
Qed.

Lemma map_nxt_length (a : list node) {B} (f : B -> list trans) (b : list B) :
  map nxt a = map f b -> length a = length b.
Proof. intros H. rewrite <- (map_length nxt a), H, map_length. reflexivity. Qed.

(** * the read-only loops keep every next_states *)
Lemma sweep_reach_nxt S sl : map nxt (fst (sweep_reach K S sl)) = map nxt sl.
Proof.
  unfold sweep_reach.
  apply (fold_inv (fun st : list node * T => map nxt (fst st) = map nxt sl)); [|reflexivity].
  intros [sl' md] i H. cbn in *. rewrite h_map_upd. cbn. rewrite <- H.
  etransitivity; [|apply (h_upd_same (map nxt sl') i (nxt (dnode K)))].
  f_equal. unfold getn. symmetry. apply (map_nth nxt).
Qed.

Lemma vi_reach_nxt S : forall fuel sl i r,
  vi_reach K fuel S sl i = Ok r -> map nxt (fst r) = map nxt sl.
Proof.
  induction fuel as [|f IH]; intros sl i r H; cbn in H; [discriminate|].
  destruct (ltb K (thr K) _).
  - apply IH in H. rewrite H. apply sweep_reach_nxt.
  - injection H as <-. cbn. apply sweep_reach_nxt.
Qed.

Lemma after_reach_nxt prune sl sl' : after_reach K prune sl = Ok sl' -> map nxt sl' = map nxt sl.
Proof.
  unfold after_reach. destruct (_ && _); [discriminate|]. intros H. injection H as <-.
  rewrite map_map. reflexivity.
Qed.

Lemma sweep_rew_fold_nxt : forall (idxs : list nat) (o : outcome (list node * T)) r,
  fold_left (fun o i =>
     do st <- o;
     let sl := fst st in let md := snd st in
     let n := getn K sl i in
     match rew_step K sl n with
     | None => Crash "UnboundLocalError"%string
     | Some (a, b, c) =>
       let d := max3 K (absf K (sub K a (er n))) (absf K (sub K b (ermr n))) (absf K (sub K c (erm n))) in
       Ok (upd sl i (set_rews n a b c), if ltb K md d then d else md)
     end) idxs o = Ok r ->
  exists r0, o = Ok r0 /\ map nxt (fst r) = map nxt (fst r0).
Proof.
  induction idxs as [|i idxs IH]; intros o r H; cbn [fold_left] in H.
  - exists r. split; [exact H|reflexivity].
  - apply IH in H. destruct H as [r1 [H1 H2]].
    destruct o as [[sl md]| | |]; cbn [bind fst snd] in H1; try discriminate.
    exists (sl, md). split; [reflexivity|]. rewrite H2. cbn [fst].
    destruct (rew_step K sl (getn K sl i)) as [[[a b] c]|]; [|discriminate].
    injection H1 as <-. cbn [fst]. rewrite h_map_upd. cbn [nxt set_rews].
    etransitivity; [|apply (h_upd_same (map nxt sl) i (nxt (dnode K)))].
    f_equal. unfold getn. symmetry. apply (map_nth nxt).
Qed.

Lemma sweep_rew_nxt sl r : sweep_rew K sl = Ok r -> map nxt (fst r) = map nxt sl.
Proof.
  unfold sweep_rew. intros H. apply sweep_rew_fold_nxt in H. destruct H as [r0 [H0 H]].
  injection H0 as <-. exact H.
Qed.

Lemma vi_rew_nxt : forall fuel sl i r, vi_rew K fuel sl i = Ok r -> map nxt (fst r) = map nxt sl.
Proof.
  induction fuel as [|f IH]; intros sl i r H; cbn in H; [discriminate|].
  destruct (sweep_rew K sl) as [r1| | |] eqn:E; cbn in H; try discriminate.
  apply sweep_rew_nxt in E. destruct (ltb K (thr K) _).
  - apply IH in H. congruence.
  - injection H as <-. cbn. exact E.
Qed.

(** * init_states *)
Definition omap {A B} (f : A -> B) (o : outcome A) : outcome B :=
  match o with Ok a => Ok (f a) | ValueErr m => ValueErr m | Crash w => Crash w | OutOfFuel => OutOfFuel end.

Definition rd_row (st : store) (x : kind * loc * T) : kind * list trans * T :=
  (fst (fst x), rd st (snd (fst x)), snd x).

Lemma init_from_refines st n finals : forall l idx,
  omap (view st) (init_H_from K st n idx finals l)
  = init_states_from K n idx finals (map (rd_row st) l).
Proof.
  induction l as [|[[k lc] r] l IH]; intros idx; [reflexivity|].
  cbn [map rd_row fst snd init_H_from init_states_from].
  specialize (IH (S idx)).
  destruct (rd st lc) as [|t tr] eqn:E.
  - rewrite <- IH. destruct (init_H_from K st n (S idx) finals l); reflexivity.
  - destruct (existsb _ _); [reflexivity|]. rewrite <- IH.
    destruct (init_H_from K st n (S idx) finals l); try reflexivity.
    cbn. unfold Heap.view1. cbn. rewrite E. reflexivity.
Qed.

Lemma init_from_locs st n finals : forall l idx hs,
  Forall (fun x => snd (fst x) < length st) l ->
  init_H_from K st n idx finals l = Ok hs -> locs_ok st hs.
Proof.
  induction l as [|[[k lc] r] l IH]; intros idx hs HF H; cbn in H.
  - injection H as <-. constructor.
  - inversion HF as [|? ? H1 H2]; subst. cbn in H1.
    destruct (rd st lc) as [|t tr].
    + destruct (init_H_from K st n (S idx) finals l) eqn:E; cbn in H; try discriminate.
      injection H as <-. eapply IH; eassumption.
    + destruct (existsb _ _); [discriminate|].
      destruct (init_H_from K st n (S idx) finals l) eqn:E; cbn in H; try discriminate.
      injection H as <-. constructor; [exact H1|]. eapply IH; eassumption.
Qed.

Lemma combine_rows (st : store) (ps : list kind) : forall (rows : list loc) (rs : list T),
  map (rd_row st) (combine (combine ps rows) rs)
  = combine (combine ps (map (rd st) rows)) rs.
Proof.
  induction ps as [|p ps IH]; intros [|l rows] [|r rs]; cbn; try reflexivity.
  rewrite IH. reflexivity.
Qed.

Lemma combine_rows_valid (st : store) (ps : list kind) : forall (rows : list loc) (rs : list T),
  Forall (fun l => l < length st) rows ->
  Forall (fun x : kind * loc * T => snd (fst x) < length st) (combine (combine ps rows) rs).
Proof.
  induction ps as [|p ps IH]; intros [|l rows] [|r rs] H; cbn; try constructor;
    inversion H; subst; [assumption|]. apply IH. assumption.
Qed.

Lemma init_states_refines st hg :
  omap (view st) (init_states_H K st hg) = init_states K (read_game st hg).
Proof.
  unfold init_states_H, init_states, read_game. cbn [g_players g_trans g_rewards g_finals].
  rewrite <- combine_rows, <- init_from_refines.
  destruct (init_H_from K st _ 0 _ _) as [hs| | |]; cbn; try reflexivity.
  rewrite view_length. destruct (_ =? _); reflexivity.
Qed.

Lemma init_states_locs st hg hs :
  rows_valid st hg -> init_states_H K st hg = Ok hs -> locs_ok st hs.
Proof.
  unfold init_states_H. intros Hv H.
  destruct (init_H_from K st _ 0 _ _) as [hs'| | |] eqn:E; cbn in H; try discriminate.
  destruct (_ =? _); [|discriminate]. injection H as <-.
  eapply init_from_locs; [|exact E]. apply combine_rows_valid. exact Hv.
Qed.

(** * pruning steps: the view after = the pure step on the view before *)
Lemma mapS_spec {A} (f : store -> hnode -> A -> store * hnode) (F : node -> A -> node) :
  (forall st h a, hloc h < length st ->
      ext st (fst (f st h a)) /\ hloc (snd (f st h a)) < length (fst (f st h a))
      /\ view1 (fst (f st h a)) (snd (f st h a)) = F (view1 st h) a) ->
  forall l st, Forall (fun ha : hnode * A => hloc (fst ha) < length st) l ->
    ext st (fst (mapS f st l)) /\ locs_ok (fst (mapS f st l)) (snd (mapS f st l))
    /\ view (fst (mapS f st l)) (snd (mapS f st l)) = map (fun ha => F (view1 st (fst ha)) (snd ha)) l.
Proof.
  intros Hf l. induction l as [|[h a] l IH]; intros st HF; cbn.
  - split; [apply ext_refl|]. split; [constructor|reflexivity].
  - inversion HF as [|? ? H1 H2]; subst. cbn in H1.
    destruct (Hf st h a H1) as [E1 [L1 V1]].
    destruct (f st h a) as [st1 h1]. cbn in E1, L1, V1.
    assert (HF1 : Forall (fun ha : hnode * A => hloc (fst ha) < length st1) l).
    { apply ext_length in E1. eapply Forall_impl; [|exact H2]. cbn. intros; lia. }
    destruct (IH st1 HF1) as [E2 [L2 V2]].
    destruct (mapS f st1 l) as [st2 hs]. cbn in E2, L2, V2 |- *.
    split; [eapply ext_trans; eassumption|].
    split; [constructor; [apply ext_length in E2; cbn; lia|exact L2]|].
    unfold Heap.view in V2 |- *. cbn [map fst snd]. f_equal.
    + rewrite (view1_ext st1 st2 h1 E2 L1). exact V1.
    + rewrite V2. apply map_ext_in. intros [h' a'] Hin. cbn. f_equal.
      apply view1_ext; [exact E1|]. rewrite Forall_forall in H2. apply (H2 (h', a')), Hin.
Qed.

Lemma rebind_spec st h v :
  ext st (fst (rebind st h v)) /\ hloc (snd (rebind st h v)) < length (fst (rebind st h v))
  /\ view1 (fst (rebind st h v)) (snd (rebind st h v)) = set_nxt (view1 st h) v.
Proof.
  cbn. split; [exists [v]; reflexivity|]. split; [rewrite app_length; cbn; lia|].
  unfold Heap.view1. cbn. rewrite rd_new. reflexivity.
Qed.

Lemma keep_spec st (h : hnode) : hloc h < length st ->
  ext st st /\ hloc h < length st /\ view1 st h = view1 st h.
Proof. intros H. split; [apply ext_refl|]. split; [exact H|reflexivity]. Qed.

Definition prune_reach_node (n : node) (s : option (list string)) : node :=
  match nk n, s with
  | P1, Some best => set_nxt n (filter (fun t => mem_str (act t) best) (nxt n))
  | _, _ => n
  end.

Lemma prune_reachability_as_map strats (sl : list node) :
  prune_reachability strats sl = map (fun ns => prune_reach_node (fst ns) (snd ns)) (combine sl strats).
Proof.
  unfold prune_reachability. apply map_ext. intros [n s]. cbn. unfold prune_reach_node.
  destruct (nk n), s; reflexivity.
Qed.

Lemma combine_view st (hs : list hnode) {A} : forall (l : list A),
  combine (view st hs) l = map (fun ha => (view1 st (fst ha), snd ha)) (combine hs l).
Proof.
  induction hs as [|h hs IH]; intros [|a l]; cbn; try reflexivity. f_equal. apply IH.
Qed.

Lemma combine_locs st (hs : list hnode) {A} : forall (l : list A),
  locs_ok st hs -> Forall (fun ha : hnode * A => hloc (fst ha) < length st) (combine hs l).
Proof.
  induction hs as [|h hs IH]; intros [|a l] H; cbn; try constructor; inversion H; subst; auto.
Qed.

Lemma prune_reachability_refines strats st hs :
  locs_ok st hs ->
  let r := prune_reachability_H strats st hs in
  ext st (fst r) /\ locs_ok (fst r) (snd r)
  /\ view (fst r) (snd r) = prune_reachability strats (view st hs).
Proof.
  intros HL. cbn. unfold prune_reachability_H.
  destruct (mapS_spec prune_reach_node_H prune_reach_node) with (l := combine hs strats) (st := st)
    as [E [L V]].
  - intros st0 h s Hh. unfold prune_reach_node_H, prune_reach_node.
    change (nk (view1 st0 h)) with (nk (hbody h)).
    destruct (nk (hbody h)); try (apply keep_spec; exact Hh).
    destruct s; [|apply keep_spec; exact Hh]. apply rebind_spec.
  - apply combine_locs. exact HL.
  - split; [exact E|]. split; [exact L|]. rewrite V, prune_reachability_as_map, combine_view, map_map.
    reflexivity.
Qed.

Lemma prune_paths_refines sl st hs :
  locs_ok st hs ->
  exists st' hs', prune_paths_H K sl st hs = (st', Ok hs') /\
    ext st st' /\ locs_ok st' hs' /\ view st' hs' = map (prune_paths_node K sl) (view st hs).
Proof.
  intros HL. unfold prune_paths_H.
  destruct (mapS_spec (prune_paths_node_H K sl) (fun n _ => prune_paths_node K sl n))
    with (l := map (fun h : hnode => (h, tt)) hs) (st := st) as [E [L V]].
  - intros st0 h u Hh. unfold prune_paths_node_H, prune_paths_node.
    change (nk (view1 st0 h)) with (nk (hbody h)).
    change (nxt (view1 st0 h)) with (rd st0 (hloc h)).
    destruct (nk (hbody h)).
    + apply rebind_spec.
    + apply keep_spec; exact Hh.
    + destruct (_ =? _); [apply keep_spec; exact Hh|apply rebind_spec].
  - unfold locs_ok in HL. rewrite Forall_forall in *. intros [h u] Hin.
    apply in_map_iff in Hin. destruct Hin as [h' [Heq Hin]]. injection Heq as <- _. cbn. auto.
  - destruct (mapS _ st _) as [st' hs']. cbn [fst snd] in E, L, V. exists st', hs'.
    split; [reflexivity|]. split; [exact E|]. split; [exact L|]. rewrite V, map_map. unfold Heap.view. rewrite map_map. reflexivity.
Qed.

(* prune_states *)
Lemma combine_swap_view st {A C} (G : node -> A -> C) : forall (hs : list hnode) (l : list A),
  map (fun ha => G (view1 st (fst ha)) (snd ha)) (combine hs l)
  = map (fun ix => G (snd ix) (fst ix)) (combine l (view st hs)).
Proof.
  induction hs as [|h hs IH]; intros [|a l]; cbn; try reflexivity. f_equal. apply IH.
Qed.

Lemma prune_states_round_refines st hs :
  locs_ok st hs ->
  let r := prune_states_round_H st hs in
  ext st (fst (fst r)) /\ locs_ok (fst (fst r)) (snd (fst r))
  /\ view (fst (fst r)) (snd (fst r)) = fst (prune_states_round (view st hs))
  /\ snd r = snd (prune_states_round (view st hs)).
Proof.
  intros HL. cbn. unfold prune_states_round_H, prune_states_round. cbn [fst snd].
  set (reachable := 0 :: flat_map (fun n : node => map dst (nxt n)) (view st hs)).
  destruct (mapS_spec (prune_states_node_H reachable)
              (fun n idx => if ps_clear reachable idx n then set_nxt n [] else n))
    with (l := combine hs (seq 0 (length hs))) (st := st) as [E [L V]].
  - intros st0 h idx Hh. unfold prune_states_node_H.
    destruct (ps_clear reachable idx (view1 st0 h)); [apply rebind_spec|apply keep_spec; exact Hh].
  - apply combine_locs. exact HL.
  - split; [exact E|]. split; [exact L|]. split; [|reflexivity].
    rewrite V, view_length.
    apply (combine_swap_view st (fun n idx => if ps_clear reachable idx n then set_nxt n [] else n)).
Qed.

Lemma prune_states_refines : forall fuel old st hs,
  locs_ok st hs ->
  match prune_states_H fuel old st hs with
  | (st', Ok hs') => locs_ok st' hs' /\ prune_states fuel old (view st hs) = Ok (view st' hs')
  | (_, ValueErr m) => prune_states fuel old (view st hs) = ValueErr m
  | (_, Crash w) => prune_states fuel old (view st hs) = Crash w
  | (_, OutOfFuel) => prune_states fuel old (view st hs) = OutOfFuel
  end.
Proof.
  induction fuel as [|f IH]; intros old st hs HL; cbn [prune_states_H prune_states]; [reflexivity|].
  destruct (prune_states_round_refines st hs HL) as [_ [L [V A]]].
  rewrite <- A, <- V.
  destruct (_ && _).
  - split; [exact L|reflexivity].
  - apply IH. exact L.
Qed.

(** * refinement of the whole pipeline *)
Definition pp_refines (pp : pp_step) : Prop :=
  forall st hs, locs_ok st hs ->
    exists st' hs', pp (view st hs) st hs = (st', Ok hs') /\
      locs_ok st' hs' /\ view st' hs' = prune_paths K (view st hs).

Lemma prune_paths_H_refines : pp_refines (prune_paths_H K).
Proof.
  intros st hs HL. destruct (prune_paths_refines (view st hs) st hs HL) as [st' [hs' [H [_ [L V]]]]].
  exists st', hs'. split; [exact H|]. split; [exact L|exact V].
Qed.

Lemma solve_gen_refines (pp : pp_step) : pp_refines pp ->
  forall fuel st hg prune, rows_valid st hg ->
    snd (solve_gen K pp fuel st hg prune) = solve_fuel K fuel (read_game st hg) prune.
Proof.
  intros Hpp fuel st hg prune Hv. unfold solve_gen, solve_fuel, solve_reach_fuel.
  destruct (check_game K (read_game st hg)) as [[]| | |]; cbn [sbind bind snd]; try reflexivity.
  pose proof (init_states_refines st hg) as HI.
  pose proof (init_states_locs st hg) as HIL.
  destruct (init_states_H K st hg) as [hs0| | |]; cbn [omap] in HI; rewrite <- HI;
    cbn [sbind bind snd]; try reflexivity.
  specialize (HIL hs0 Hv eq_refl).
  change (g_finals (read_game st hg)) with (hg_finals hg).
  destruct (hg_finals hg) as [|f0 fs] eqn:EF; [reflexivity|].
  destruct (reverse_dfs _ (f0 :: fs)) as [srf| | |]; cbn [sbind bind snd]; try reflexivity.
  destruct (vi_reach K fuel srf (view st hs0) 0) as [r1| | |] eqn:E1; cbn [sbind bind snd]; try reflexivity.
  apply vi_reach_nxt in E1.
  destruct (after_reach K prune (fst r1)) as [sl1| | |] eqn:E2; cbn [sbind bind snd fst]; try reflexivity.
  apply after_reach_nxt in E2.
  assert (HN : map nxt sl1 = map (fun h => rd st (hloc h)) hs0).
  { rewrite E2, E1. apply view_nxt. }
  rewrite (view_put_fields st sl1 hs0 HN).
  assert (HL1 : locs_ok st (put_fields sl1 hs0)).
  { apply put_fields_locs; [eapply map_nxt_length; exact HN|exact HIL]. }
  destruct (prune_reachability_refines (strats_reach K sl1) st (put_fields sl1 hs0) HL1) as [Ex2 [L2 V2]].
  rewrite (view_put_fields st sl1 hs0 HN) in V2.
  destruct (prune_reachability_H (strats_reach K sl1) st (put_fields sl1 hs0)) as [st2 hs2].
  cbn [fst snd] in Ex2, L2, V2.
  rewrite <- V2, view_length.
  destruct prune.
  - destruct (Hpp st2 hs2 L2) as [st3 [hs3 [P3 [L3 V3]]]]. rewrite P3. cbn [sbind].
    pose proof (prune_states_refines (length hs2 + 2) [] st3 hs3 L3) as PS. rewrite V3 in PS.
    destruct (prune_states_H (length hs2 + 2) [] st3 hs3) as [st4 [hs4| | |]];
      cbn [sbind bind snd]; try (rewrite PS; reflexivity).
    destruct PS as [L4 PS]. rewrite PS. cbn [bind].
    destruct (vi_rew K fuel (view st4 hs4) 0) as [r2| | |]; cbn [sbind bind snd]; reflexivity.
  - cbn [sbind bind].
    destruct (vi_rew K fuel (view st2 hs2) 0) as [r2| | |]; cbn [sbind bind snd]; reflexivity.
Qed.

Theorem solve_H_refines fuel st hg prune :
  rows_valid st hg ->
  snd (solve_H K fuel st hg prune) = solve_fuel K fuel (read_game st hg) prune.
Proof. apply solve_gen_refines. apply prune_paths_H_refines. Qed.

(* a description loaded into its own store *)
Lemma load_valid (g : @game T) : rows_valid (fst (load g)) (snd (load g)).
Proof.
  unfold rows_valid, load. cbn. rewrite Forall_forall. intros l H. apply in_seq in H. lia.
Qed.

Lemma map_nth_seq {A} (d : A) : forall (l : list A), map (fun i => nth i l d) (seq 0 (length l)) = l.
Proof.
  induction l as [|x l IH]; [reflexivity|]. cbn. f_equal. rewrite <- seq_shift, map_map. exact IH.
Qed.

Lemma read_load (g : @game T) : read_game (fst (load g)) (snd (load g)) = g.
Proof.
  unfold read_game, load. cbn. unfold Heap.rd. rewrite map_nth_seq. destruct g; reflexivity.
Qed.

Theorem solve_H_load fuel (g : @game T) prune :
  snd (solve_H K fuel (fst (load g)) (snd (load g)) prune) = solve_fuel K fuel g prune.
Proof. rewrite solve_H_refines by apply load_valid. rewrite read_load. reflexivity. Qed.

(** * sequences of solves *)
Theorem solve_seq_H_spec fuel hg : forall steps st obj,
  rows_valid st hg ->
  (forall o, obj = Some o -> o_game o = hg) ->
  let r := solve_seq_H K fuel hg st obj steps in
  ext st (fst r)
  /\ snd r = map (fun s => solve_fuel K fuel (read_game st hg) (fst s)) steps.
Proof.
  unfold solve_seq_H.
  induction steps as [|[prune fresh] steps IH]; intros st obj Hv Ho; cbn [solve_seq_gen map fst snd].
  - split; [apply ext_refl|reflexivity].
  - set (o := match obj with
              | Some o => if fresh then mkObj hg prune else mkObj (o_game o) prune
              | None => mkObj hg prune end).
    assert (Hog : o_game o = hg).
    { subst o. destruct obj as [o'|]; [|reflexivity]. destruct fresh; [reflexivity|]. cbn. apply Ho. reflexivity. }
    assert (Hop : o_prune o = prune).
    { subst o. destruct obj as [o'|]; [|reflexivity]. destruct fresh; reflexivity. }
    rewrite Hog, Hop.
    pose proof (solve_H_ext fuel st hg prune) as E1.
    pose proof (solve_H_refines fuel st hg prune Hv) as R1.
    unfold solve_H in E1, R1.
    destruct (solve_gen K (prune_paths_H K) fuel st hg prune) as [st1 r]. cbn [fst snd] in E1, R1.
    assert (Ho' : forall o', Some o = Some o' -> o_game o' = hg).
    { intros o' H. injection H as <-. exact Hog. }
    destruct (IH st1 (Some o) (rows_valid_ext _ _ _ Hv E1) Ho') as [E2 R2].
    destruct (solve_seq_gen K (prune_paths_H K) fuel hg st1 (Some o) steps) as [st2 rs].
    cbn [fst snd] in E2, R2 |- *.
    split; [eapply ext_trans; eassumption|].
    rewrite R1, R2. f_equal. apply map_ext. intros s. rewrite (read_game_ext st st1 hg Hv E1). reflexivity.
Qed.

End HeapP.
Section HeapCor.
Context {T : Type}.
Variable K : ops T.

Lemma solve_H_frame_rows fuel (g : @game T) prune :
  firstn (length (g_trans g)) (fst (solve_H K fuel (fst (load g)) (snd (load g)) prune)) = g_trans g.
Proof.
  destruct (solve_H_ext K fuel (fst (load g)) (snd (load g)) prune) as [e ->].
  cbn. rewrite firstn_app, Nat.sub_diag, firstn_all. cbn. apply app_nil_r.
Qed.

Lemma solve_seq_H_repeatable fuel (st : @store T) (hg : @hgame T) (steps : list (bool * bool)) :
  rows_valid st hg ->
  snd (solve_seq_H K fuel hg st None steps)
    = map (fun s => solve_fuel K fuel (read_game st hg) (fst s)) steps
  /\ read_game (fst (solve_seq_H K fuel hg st None steps)) hg = read_game st hg.
Proof.
  intros Hv.
  destruct (solve_seq_H_spec K fuel hg steps st None Hv) as [E R]; [discriminate|].
  split; [exact R|]. apply read_game_ext; assumption.
Qed.

Lemma solve_seq_H_same_mode fuel (st : @store T) (hg : @hgame T) steps i j d :
  rows_valid st hg -> i < length steps -> j < length steps ->
  fst (nth i steps (true, true)) = fst (nth j steps (true, true)) ->
  nth i (snd (solve_seq_H K fuel hg st None steps)) d = nth j (snd (solve_seq_H K fuel hg st None steps)) d.
Proof.
  intros Hv Hi Hj Heq.
  destruct (solve_seq_H_spec K fuel hg steps st None Hv) as [_ R]; [discriminate|]. cbv zeta in R. rewrite R.
  set (f := fun s : bool * bool => solve_fuel K fuel (read_game st hg) (fst s)).
  rewrite (nth_indep _ d (f (true, true))) by (rewrite map_length; exact Hi).
  rewrite (nth_indep (map f steps) d (f (true, true))) by (rewrite map_length; exact Hj).
  rewrite !map_nth. unfold f. rewrite Heq. reflexivity.
Qed.
End HeapCor.

(** * The pinned tree (in-place scan) on figure 5.5, exact rationals: defect D4 *)
Require Import QArith.
Module Fig55.
Local Open Scope string_scope.
Definition a (s : string) (d : nat) : @trans Q := mkT s 0%Q d.
Definition p (x : Q) (d : nat) : @trans Q := mkT "" x d.
Definition g : @game Q :=
  mkG [0%Q; 2%Q; (5 # 3)%Q; 0%Q; 0%Q; 0%Q; 0%Q; 0%Q] [P1; P2; P2; PR; PR; PR; PR; PR]
      [[a "alfa" 1; a "beta" 2]; [a " " 3]; [a " " 4]; [p (1 # 2) 5; p (1 # 2) 6];
       [p (3 # 4) 6; p (1 # 4) 7]; [p 1 5]; [p 1 6]; [p 1 7]] [6%nat].
Definition st0 := fst (load g).
Definition hg0 := snd (load g).
Definition fuel := 1000%nat.

(* what the caller's eight rows look like after ONE pruned solve of the pinned tree *)
Lemma orig_damages_description :
  firstn 8 (fst (solve_H_orig qops fuel st0 hg0 true))
  = [[a "alfa" 1; a "beta" 2]; [a " " 3]; [a " " 4]; [p (1 # 2) 6]; [p (3 # 4) 6]; []; [p 1 6]; []].
Proof. vm_compute. reflexivity. Qed.

Lemma orig_row5_changed : rd (fst (solve_H_orig qops fuel st0 hg0 true)) 5%nat <> rd st0 5%nat.
Proof. vm_compute. discriminate. Qed.

Lemma orig_first_solve_ok : is_ok (snd (solve_H_orig qops fuel st0 hg0 true)) = true.
Proof. vm_compute. reflexivity. Qed.

Lemma orig_second_solve_fails :
  nth 1 (snd (solve_seq_H_orig qops fuel hg0 st0 None [(true, true); (false, false)])) OutOfFuel
  = ValueErr msg_missing.
Proof. vm_compute. reflexivity. Qed.

Lemma orig_second_solve_fails_fresh_object :
  nth 1 (snd (solve_seq_H_orig qops fuel hg0 st0 None [(true, true); (true, true)])) OutOfFuel
  = ValueErr msg_missing.
Proof. vm_compute. reflexivity. Qed.

(* the repaired pipeline on the same input: three solves, all Ok, store grew (so the frame
   statement is not about a pipeline that never allocates), description intact *)
Lemma repaired_example :
  let r := solve_seq_H qops fuel hg0 st0 None [(true, true); (false, false); (true, false)] in
  forallb is_ok (snd r) = true /\ Nat.ltb (length st0) (length (fst r)) = true /\ firstn 8 (fst r) = st0.
Proof. vm_compute. repeat split; reflexivity. Qed.
End Fig55.
