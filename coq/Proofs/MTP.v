(** Proofs for Model/MT.v: the generator state is always 624 words below 2^32 (seeding,
    regeneration, every draw), ranges of random() / getrandbits / randrange / choices, and the
    shape of the board generated from the Mersenne Twister. *)
From Coq Require Import String ZArith NArith List Bool Lia QArith PrimFloat.
From CR Require Import Model.Num Model.Outcome Model.Params Model.MT Proofs.ParamsP.
Import ListNotations.
Local Open Scope N_scope.

(** * 32-bit words *)

Definition word (x : N) : Prop := x < w32.
Definition words_ok (l : list N) : Prop := List.length l = mtN /\ Forall word l.
Definition state_ok (st : mtstate) : Prop := words_ok (mt_words st) /\ (mt_idx st <= mtN)%nat.

Lemma lt_pow2_bits : forall a n, a < 2 ^ n <-> (forall m, n <= m -> N.testbit a m = false).
Proof.
  intros a n; split.
  - intros H m Hm. rewrite <- (N.mod_small a (2 ^ n)) by assumption.
    apply N.mod_pow2_bits_high; assumption.
  - intros H. assert (E : a = a mod 2 ^ n).
    { apply N.bits_inj. intro m. destruct (N.lt_ge_cases m n).
      - now rewrite N.mod_pow2_bits_low.
      - rewrite N.mod_pow2_bits_high by assumption. now apply H. }
    rewrite E. apply N.mod_lt. apply N.pow_nonzero. discriminate.
Qed.

Lemma lxor_lt : forall a b n, a < 2 ^ n -> b < 2 ^ n -> N.lxor a b < 2 ^ n.
Proof.
  intros a b n Ha Hb. apply lt_pow2_bits. intros m Hm. rewrite N.lxor_spec.
  rewrite (proj1 (lt_pow2_bits a n) Ha m Hm), (proj1 (lt_pow2_bits b n) Hb m Hm). reflexivity.
Qed.

Lemma lor_lt : forall a b n, a < 2 ^ n -> b < 2 ^ n -> N.lor a b < 2 ^ n.
Proof.
  intros a b n Ha Hb. apply lt_pow2_bits. intros m Hm. rewrite N.lor_spec.
  rewrite (proj1 (lt_pow2_bits a n) Ha m Hm), (proj1 (lt_pow2_bits b n) Hb m Hm). reflexivity.
Qed.

Lemma land_lt_r : forall a b n, b < 2 ^ n -> N.land a b < 2 ^ n.
Proof.
  intros a b n Hb. apply lt_pow2_bits. intros m Hm. rewrite N.land_spec.
  rewrite (proj1 (lt_pow2_bits b n) Hb m Hm). apply andb_false_r.
Qed.

Lemma shiftr_lt : forall a n k, a < 2 ^ (n + k) -> N.shiftr a k < 2 ^ n.
Proof.
  intros a n k Ha. apply lt_pow2_bits. intros m Hm. rewrite N.shiftr_spec'.
  apply (proj1 (lt_pow2_bits a (n + k)) Ha). lia.
Qed.

Lemma shiftr_lt_same : forall a n k, a < 2 ^ n -> N.shiftr a k < 2 ^ n.
Proof.
  intros a n k Ha. apply lt_pow2_bits. intros m Hm. rewrite N.shiftr_spec'.
  apply (proj1 (lt_pow2_bits a n) Ha). lia.
Qed.

Lemma w32_pow : w32 = 2 ^ 32.
Proof. reflexivity. Qed.

Lemma trunc32_mod : forall x, trunc32 x = x mod 2 ^ 32.
Proof. intros x. unfold trunc32. change 4294967295 with (N.ones 32). apply N.land_ones. Qed.

Lemma trunc32_word : forall x, word (trunc32 x).
Proof.
  intros x. unfold word. rewrite trunc32_mod, w32_pow. apply N.mod_lt. discriminate.
Qed.

Lemma trunc32_id : forall x, word x -> trunc32 x = x.
Proof. intros x H. rewrite trunc32_mod. apply N.mod_small. exact H. Qed.

Lemma word_lxor : forall a b, word a -> word b -> word (N.lxor a b).
Proof. unfold word. intros a b. rewrite w32_pow. apply lxor_lt. Qed.
Lemma word_shiftr : forall a k, word a -> word (N.shiftr a k).
Proof. unfold word. intros a k. rewrite w32_pow. apply shiftr_lt_same. Qed.
Lemma word_land_r : forall a b, word b -> word (N.land a b).
Proof. unfold word. intros a b. rewrite w32_pow. apply land_lt_r. Qed.
Lemma word_lor : forall a b, word a -> word b -> word (N.lor a b).
Proof. unfold word. intros a b. rewrite w32_pow. apply lor_lt. Qed.
Lemma word_const : forall c, (c <? w32) = true -> word c.
Proof. intros c H. apply N.ltb_lt. exact H. Qed.

Lemma word_0 : word 0.
Proof. apply word_const. reflexivity. Qed.

Lemma Forall_nth_word : forall l i, Forall word l -> word (nth i l 0).
Proof.
  intros l i H. revert i. induction H; intros [|i]; simpl; auto using word_0.
Qed.

Lemma Forall_hd_word : forall l, Forall word l -> word (hd 0 l).
Proof. intros l H. destruct H; simpl; auto using word_0. Qed.

Lemma Forall_skipn_word : forall n (l : list N), Forall word l -> Forall word (skipn n l).
Proof.
  induction n; intros l H; simpl; [assumption|]. destruct H; [constructor|]. now apply IHn.
Qed.

Lemma Forall_tl_word : forall (l : list N), Forall word l -> Forall word (tl l).
Proof. intros l H. destruct H; simpl; auto. Qed.

Lemma tl_length : forall {A} (l : list A), List.length (tl l) = (List.length l - 1)%nat.
Proof. intros A [|a l]; simpl; lia. Qed.

(** * Seeding *)

Lemma init_genrand_from_ok : forall n i prev,
  List.length (init_genrand_from n i prev) = n /\ Forall word (init_genrand_from n i prev).
Proof.
  induction n; intros i prev; cbn [init_genrand_from List.length]; [split; [reflexivity|constructor]|].
  destruct (IHn (i + 1) (trunc32 (1812433253 * N.lxor prev (N.shiftr prev 30) + i))) as [A B].
  split; [now rewrite A|]. constructor; [apply trunc32_word|exact B].
Qed.

Lemma init_genrand_ok : forall s, words_ok (init_genrand s).
Proof.
  intros s. unfold init_genrand, words_ok.
  destruct (init_genrand_from_ok 623 1 (trunc32 s)) as [A B].
  split; [cbn [List.length]; rewrite A; reflexivity|].
  constructor; [apply trunc32_word|exact B].
Qed.

(* the zipper holds positions 1..623 and only words *)
Definition zinv (z : zip) : Prop :=
  (List.length (zdone z) + List.length (ztodo z) = 623)%nat /\ ztodo z <> [] /\
  word (z0 z) /\ Forall word (zdone z) /\ Forall word (ztodo z).

Lemma zput_inv : forall v z, word v -> zinv z -> zinv (zput v z).
Proof.
  intros v [m0 dn td i] Hv [L [NE [W0 [WD WT]]]]. unfold zput; simpl in *.
  destruct td as [|x [|y t]]; [congruence| |].
  - unfold zinv; simpl. rewrite app_length, rev_length. simpl in *.
    repeat split; try assumption; try lia.
    + intros E. apply app_eq_nil in E. destruct E as [_ E]. discriminate.
    + constructor.
    + apply Forall_app. split; [apply Forall_rev; assumption|constructor; [assumption|constructor]].
  - unfold zinv; simpl in *. repeat split; try assumption; try lia.
    + discriminate.
    + constructor; assumption.
    + inversion WT; assumption.
Qed.

Lemma iba_loop1_inv : forall k key kr j z, zinv z -> zinv (iba_loop1 k key kr j z).
Proof.
  induction k; intros key kr j z H; cbn [iba_loop1]; [assumption|].
  destruct (tl kr); apply IHk; apply zput_inv; auto using trunc32_word.
Qed.

Lemma iba_loop2_inv : forall k z, zinv z -> zinv (iba_loop2 k z).
Proof.
  induction k; intros z H; cbn [iba_loop2]; [assumption|].
  apply IHk; apply zput_inv; auto using trunc32_word.
Qed.

Lemma zarray_ok : forall z, zinv z -> words_ok (zarray z).
Proof.
  intros [m0 dn td i] [L [NE [W0 [WD WT]]]]. unfold zarray, words_ok; simpl in *.
  rewrite app_length, rev_length. split; [unfold mtN; lia|].
  constructor; [assumption|]. apply Forall_app. split; [apply Forall_rev|]; assumption.
Qed.

Lemma init_by_array_ok : forall key, words_ok (init_by_array key).
Proof.
  intros key. unfold init_by_array.
  destruct (init_genrand_ok 19650218) as [A B].
  destruct (init_genrand 19650218) as [|m0 rest]; [discriminate A|].
  assert (Z1 : zinv (mkZ m0 [] rest 1)).
  { unfold zinv; simpl. simpl in A. inversion B; subst.
    repeat split; try assumption; try constructor.
    - unfold mtN in A. lia.
    - intros E. subst rest. discriminate A. }
  pose proof (zarray_ok _ (iba_loop2_inv (mtN - 1) _
               (iba_loop1_inv (Nat.max mtN (List.length key)) key key 0 _ Z1))) as [C D].
  destruct (zarray _) as [|x r]; [discriminate C|].
  split; [exact C|]. inversion D; subst. constructor; [apply word_const; reflexivity|assumption].
Qed.

Lemma seed_N_ok : forall n, state_ok (seed_N n).
Proof. intros n. split; [apply init_by_array_ok|simpl; lia]. Qed.

Lemma seed_Z_ok : forall a, state_ok (seed_Z a).
Proof. intros a. apply seed_N_ok. Qed.

Lemma seed_Z_abs : forall a, seed_Z (- a) = seed_Z a.
Proof. intros a. unfold seed_Z. now rewrite Zabs2N.inj_opp. Qed.

(** the key: 32-bit words, at least one, least significant first, denoting the seed *)

Lemma key_words_unfold : forall f n,
  key_words (S f) n = (n mod w32) :: (if n / w32 =? 0 then [] else key_words f (n / w32)).
Proof.
  intros f n. cbn [key_words]. rewrite trunc32_mod, N.shiftr_div_pow2. reflexivity.
Qed.

Lemma key_words_value : forall fuel n, n < 2 ^ (32 * N.of_nat fuel) -> key_value (key_words fuel n) = n.
Proof.
  induction fuel; intros n H.
  - simpl in H. assert (n = 0) by lia. subst. reflexivity.
  - rewrite key_words_unfold. cbn [key_value]. pose proof (N.div_mod n w32 ltac:(discriminate)) as DM.
    destruct (N.eqb_spec (n / w32) 0) as [E|E].
    + simpl. rewrite E in DM. lia.
    + rewrite IHfuel; [lia|].
      apply N.div_lt_upper_bound; [discriminate|].
      rewrite w32_pow, <- N.pow_add_r.
      replace (32 + 32 * N.of_nat fuel) with (32 * N.of_nat (S fuel)) by lia. exact H.
Qed.

Lemma size_bound : forall n, n < 2 ^ N.size n.
Proof.
  intros [|p]; [reflexivity|]. rewrite N.size_log2 by discriminate.
  apply N.log2_spec. reflexivity.
Qed.

Lemma key_of_value : forall n, key_value (key_of n) = n.
Proof.
  intros n. unfold key_of. apply key_words_value.
  eapply N.lt_le_trans; [apply size_bound|]. apply N.pow_le_mono_r; [discriminate|]. lia.
Qed.

Lemma key_words_word : forall fuel n, Forall word (key_words fuel n).
Proof.
  induction fuel; intros n; [constructor|]. rewrite key_words_unfold.
  constructor; [apply N.mod_lt; discriminate|]. destruct (n / w32 =? 0); [constructor|apply IHfuel].
Qed.

Lemma key_of_word : forall n, Forall word (key_of n).
Proof. intros; apply key_words_word. Qed.

Lemma key_of_nonempty : forall n, key_of n <> [].
Proof. intros n. unfold key_of. rewrite key_words_unfold. discriminate. Qed.

(* no superfluous leading word: the most significant word of a non-zero seed's key is not zero
   (so the key has (bits - 1) / 32 + 1 words, as random_seed computes), and the key of 0 is [0] *)
Lemma key_words_last : forall fuel n, n < 2 ^ (32 * N.of_nat fuel) -> n <> 0 ->
  last (key_words fuel n) 0 <> 0.
Proof.
  induction fuel; intros n H Hn.
  - change (2 ^ (32 * N.of_nat 0)) with 1 in H. lia.
  - rewrite key_words_unfold. pose proof (N.div_mod n w32 ltac:(discriminate)) as DM.
    destruct (N.eqb_spec (n / w32) 0) as [E|E].
    + cbn [last]. rewrite E in DM. lia.
    + assert (B : n / w32 < 2 ^ (32 * N.of_nat fuel)).
      { apply N.div_lt_upper_bound; [discriminate|].
        rewrite w32_pow, <- N.pow_add_r.
        replace (32 + 32 * N.of_nat fuel) with (32 * N.of_nat (S fuel)) by lia. exact H. }
      specialize (IHfuel _ B E).
      destruct fuel as [|f]; [change (2 ^ (32 * N.of_nat 0)) with 1 in B; apply N.lt_1_r in B; contradiction|].
      rewrite key_words_unfold in *. exact IHfuel.
Qed.

Lemma key_of_last : forall n, n <> 0 -> last (key_of n) 0 <> 0.
Proof.
  intros n Hn. unfold key_of. apply key_words_last; [|exact Hn].
  eapply N.lt_le_trans; [apply size_bound|]. apply N.pow_le_mono_r; [discriminate|]. lia.
Qed.

Lemma key_of_0 : key_of 0 = [0].
Proof. reflexivity. Qed.

(** * Regeneration and genrand_uint32 *)

Lemma mix_word : forall a b, word (mix a b).
Proof.
  intros a b. unfold mix. apply word_lxor.
  - apply word_shiftr. apply word_lor; apply word_land_r; apply word_const; reflexivity.
  - destruct (N.odd _); apply word_const; reflexivity.
Qed.

Lemma twist3_length : forall xs ys zs,
  List.length (twist3 xs ys zs) = Nat.min (List.length xs) (Nat.min (List.length ys) (List.length zs)).
Proof.
  induction xs; intros [|y ys] [|z zs]; simpl; try reflexivity; try lia.
  rewrite IHxs. reflexivity.
Qed.

Lemma twist3_word : forall xs ys zs, Forall word zs -> Forall word (twist3 xs ys zs).
Proof.
  induction xs; intros [|y ys] zs H; simpl; try constructor.
  destruct H; constructor; [apply word_lxor; [assumption|apply mix_word]|now apply IHxs].
Qed.

Lemma regen_ok : forall mt, words_ok mt -> words_ok (regen mt).
Proof.
  intros mt [L W]. unfold regen, words_ok.
  set (A := twist3 mt (tl mt) (skipn 397 mt)).
  set (B := twist3 (skipn 227 mt) (skipn 228 mt) A).
  set (C := twist3 (skipn 454 mt) (skipn 455 mt) B).
  assert (WA : Forall word A) by (apply twist3_word, Forall_skipn_word, W).
  assert (WB : Forall word B) by (apply twist3_word, WA).
  assert (WC : Forall word C) by (apply twist3_word, WB).
  assert (LA : List.length A = 227%nat).
  { unfold A. rewrite twist3_length, tl_length, skipn_length, L. reflexivity. }
  assert (LB : List.length B = 227%nat).
  { unfold B. rewrite twist3_length, !skipn_length, L, LA. reflexivity. }
  assert (LC : List.length C = 169%nat).
  { unfold C. rewrite twist3_length, !skipn_length, L, LB. reflexivity. }
  split.
  - rewrite !app_length, LA, LB, LC. reflexivity.
  - repeat (apply Forall_app; split); try assumption.
    constructor; [|constructor]. apply word_lxor; [apply Forall_nth_word, WB|apply mix_word].
Qed.

(* [regen] is the C loop. In the loop every word is written once, in the order kk = 0..623, from
   mt[kk], mt[kk+1] (not yet overwritten, except mt[0] for kk = 623) and a source word that is
   still old for kk < 227 and already new afterwards. Entry by entry: *)
Lemma nth_twist3 : forall xs ys zs i, (i < List.length (twist3 xs ys zs))%nat ->
  nth i (twist3 xs ys zs) 0 = N.lxor (nth i zs 0) (mix (nth i xs 0) (nth i ys 0)).
Proof.
  induction xs; intros [|y ys] [|z zs] i H; simpl in H; try lia.
  destruct i; [reflexivity|]. simpl. apply IHxs. lia.
Qed.

Lemma nth_skipn : forall n (l : list N) i d, nth i (skipn n l) d = nth (n + i) l d.
Proof.
  induction n; intros [|x l] i d; simpl; try reflexivity; [destruct i; reflexivity|apply IHn].
Qed.

Lemma nth_tl : forall (l : list N) i d, nth i (tl l) d = nth (S i) l d.
Proof. intros [|x l] i d; simpl; [destruct i; reflexivity|reflexivity]. Qed.

Lemma regen_spec : forall mt, List.length mt = mtN ->
  let new := regen mt in
  (forall kk, (kk < 227)%nat ->
     nth kk new 0 = N.lxor (nth (kk + 397) mt 0) (mix (nth kk mt 0) (nth (kk + 1) mt 0))) /\
  (forall kk, (227 <= kk < 623)%nat ->
     nth kk new 0 = N.lxor (nth (kk - 227) new 0) (mix (nth kk mt 0) (nth (kk + 1) mt 0))) /\
  nth 623 new 0 = N.lxor (nth 396 new 0) (mix (nth 623 mt 0) (nth 0 new 0)).
Proof.
  intros mt L. unfold regen.
  set (A := twist3 mt (tl mt) (skipn 397 mt)).
  set (B := twist3 (skipn 227 mt) (skipn 228 mt) A).
  set (C := twist3 (skipn 454 mt) (skipn 455 mt) B).
  set (D := N.lxor (nth 169 B 0) (mix (nth 623 mt 0) (hd 0 A))).
  assert (LA : List.length A = 227%nat).
  { unfold A. rewrite twist3_length, tl_length, skipn_length, L. reflexivity. }
  assert (LB : List.length B = 227%nat).
  { unfold B. rewrite twist3_length, !skipn_length, L, LA. reflexivity. }
  assert (LC : List.length C = 169%nat).
  { unfold C. rewrite twist3_length, !skipn_length, L, LB. reflexivity. }
  assert (NA : forall i, (i < 227)%nat -> nth i (A ++ B ++ C ++ [D]) 0 = nth i A 0).
  { intros i Hi. apply app_nth1. lia. }
  assert (NB : forall i, (227 <= i < 454)%nat -> nth i (A ++ B ++ C ++ [D]) 0 = nth (i - 227) B 0).
  { intros i Hi. rewrite app_nth2 by lia. rewrite LA. apply app_nth1. lia. }
  assert (NC : forall i, (454 <= i < 623)%nat -> nth i (A ++ B ++ C ++ [D]) 0 = nth (i - 454) C 0).
  { intros i Hi. rewrite app_nth2 by lia. rewrite LA. rewrite app_nth2 by lia. rewrite LB.
    replace (i - 227 - 227)%nat with (i - 454)%nat by lia. apply app_nth1. lia. }
  split; [|split].
  - intros kk Hk. rewrite NA by assumption. unfold A at 1. rewrite nth_twist3 by (fold A; lia).
    rewrite nth_skipn, nth_tl. replace (397 + kk)%nat with (kk + 397)%nat by lia.
    replace (S kk) with (kk + 1)%nat by lia. reflexivity.
  - intros kk Hk. destruct (Nat.lt_ge_cases kk 454) as [H1|H1].
    + rewrite NB by lia. rewrite NA by lia. unfold B at 1. rewrite nth_twist3 by (fold B; lia).
      rewrite !nth_skipn. replace (227 + (kk - 227))%nat with kk by lia.
      replace (228 + (kk - 227))%nat with (kk + 1)%nat by lia. reflexivity.
    + rewrite NC by lia. rewrite NB by lia. unfold C at 1. rewrite nth_twist3 by (fold C; lia).
      rewrite !nth_skipn. replace (454 + (kk - 454))%nat with kk by lia.
      replace (455 + (kk - 454))%nat with (kk + 1)%nat by lia.
      replace (kk - 227 - 227)%nat with (kk - 454)%nat by lia. reflexivity.
  - rewrite (NB 396%nat) by lia. rewrite (NA 0%nat) by lia.
    rewrite app_nth2 by lia. rewrite LA. rewrite app_nth2 by lia. rewrite LB.
    rewrite app_nth2 by lia. rewrite LC.
    change (623 - 227 - 227 - 169)%nat with 0%nat. change (396 - 227)%nat with 169%nat.
    cbn [nth]. unfold D. destruct A; reflexivity.
Qed.

Lemma temper_word : forall y, word y -> word (temper y).
Proof.
  intros y H. unfold temper.
  repeat first [ apply word_lxor | apply word_shiftr | assumption
               | apply word_land_r; apply word_const; reflexivity ].
Qed.

Lemma genrand_ok : forall st, state_ok st ->
  word (fst (genrand st)) /\ state_ok (snd (genrand st)).
Proof.
  intros [ws i] [W I]. unfold genrand. cbn [mt_words mt_idx] in *.
  destruct (Nat.leb mtN i) eqn:E; cbn [mt_words mt_idx fst snd].
  - pose proof (regen_ok ws W) as [L' W'].
    split; [apply temper_word, Forall_nth_word, W'|]. split; [split; assumption|].
    cbn [mt_idx]. unfold mtN. lia.
  - apply Nat.leb_gt in E. destruct W as [L' W'].
    split; [apply temper_word, Forall_nth_word, W'|]. split; [split; assumption|].
    cbn [mt_idx]. lia.
Qed.

(* the generator never runs ahead of its block: after a draw the index is at least 1 *)
Lemma genrand_idx : forall st, (1 <= mt_idx (snd (genrand st)))%nat.
Proof. intros st. unfold genrand; simpl. lia. Qed.

(** * random() *)

Lemma random_ab_ok : forall st, state_ok st ->
  let '(a, b, st') := random_ab st in
  a < 2 ^ 27 /\ b < 2 ^ 26 /\ ab_num a b < 2 ^ 53 /\ state_ok st'.
Proof.
  intros st H. unfold random_ab.
  destruct (genrand st) as [x st1] eqn:E1. pose proof (genrand_ok st H) as [X S1]. rewrite E1 in X, S1; simpl in X, S1.
  destruct (genrand st1) as [y st2] eqn:E2. pose proof (genrand_ok st1 S1) as [Y S2]. rewrite E2 in Y, S2; simpl in Y, S2.
  assert (A : N.shiftr x 5 < 2 ^ 27) by (apply shiftr_lt; exact X).
  assert (B : N.shiftr y 6 < 2 ^ 26) by (apply shiftr_lt; exact Y).
  split; [exact A|split; [exact B|split; [|exact S2]]].
  unfold ab_num. change (2 ^ 27) with 134217728 in A. change (2 ^ 26) with 67108864 in B.
  change (2 ^ 53) with 9007199254740992. lia.
Qed.

Lemma random_ok : forall st, state_ok st -> state_ok (snd (random st)).
Proof.
  intros st H. unfold random. pose proof (random_ab_ok st H) as R.
  destruct (random_ab st) as [[a b] st']. simpl. tauto.
Qed.

(* the exact value of random(): (a * 2^26 + b) / 2^53, a rational in [0, 1) *)
Definition random_Q (st : mtstate) : Q :=
  let '(a, b, _) := random_ab st in Qmake (Z.of_N (ab_num a b)) 9007199254740992.

Lemma random_Q_range : forall st, state_ok st -> (0 <= random_Q st /\ random_Q st < 1)%Q.
Proof.
  intros st H. unfold random_Q. pose proof (random_ab_ok st H) as R.
  destruct (random_ab st) as [[a b] st']. destruct R as [_ [_ [R _]]].
  change (2 ^ 53) with 9007199254740992 in R.
  unfold Qle, Qlt. cbn [Qnum Qden]. split; lia.
Qed.

(** * getrandbits, _randbelow, randrange *)

Lemma getrandbits_words_ok : forall w k st, state_ok st ->
  fst (getrandbits_words w k st) < 2 ^ k /\ state_ok (snd (getrandbits_words w k st)).
Proof.
  induction w; intros k st H; cbn [getrandbits_words].
  - split; [apply N.neq_0_lt_0, N.pow_nonzero; discriminate|assumption].
  - destruct (genrand st) as [r st1] eqn:E. pose proof (genrand_ok st H) as [R S1].
    rewrite E in R, S1; cbn [fst snd] in R, S1.
    destruct (N.ltb_spec k 32) as [Hk|Hk]; cbn [fst snd].
    + split; [|assumption]. apply shiftr_lt. replace (k + (32 - k)) with 32 by lia. exact R.
    + destruct (getrandbits_words w (k - 32) st1) as [hi st2] eqn:E2.
      destruct (IHw (k - 32) st1 S1) as [Hhi S2]. rewrite E2 in Hhi, S2; cbn [fst snd] in Hhi, S2.
      split; [|assumption]. cbn [fst snd].
      replace k with (32 + (k - 32)) at 1 by lia. rewrite N.pow_add_r. unfold word in R. rewrite w32_pow in *.
      nia.
Qed.

Lemma getrandbits_ok : forall k st, state_ok st ->
  fst (getrandbits k st) < 2 ^ k /\ state_ok (snd (getrandbits k st)).
Proof.
  intros k st H. unfold getrandbits.
  destruct (N.eqb_spec k 0); [subst; split; [reflexivity|assumption]|].
  destruct (N.leb_spec k 32) as [Hk|Hk].
  - destruct (genrand st) as [r st1] eqn:E. pose proof (genrand_ok st H) as [R S1].
    rewrite E in R, S1; cbn [fst snd] in *.
    split; [|assumption]. apply shiftr_lt. replace (k + (32 - k)) with 32 by lia. exact R.
  - apply getrandbits_words_ok; assumption.
Qed.

Lemma randbelow_loop_ok : forall fuel n k st r st', state_ok st ->
  randbelow_loop fuel n k st = Some (r, st') -> r < n /\ state_ok st'.
Proof.
  induction fuel; intros n k st r st' H E; simpl in E; [discriminate|].
  destruct (getrandbits k st) as [x st1] eqn:G. pose proof (getrandbits_ok k st H) as [_ S1]. rewrite G in S1; simpl in S1.
  destruct (N.ltb_spec x n).
  - injection E as <- <-. split; assumption.
  - eapply IHfuel; eassumption.
Qed.

Lemma randbelow_ok : forall n st r st', state_ok st ->
  randbelow n st = Some (r, st') -> r < n /\ state_ok st'.
Proof. intros n st r st' H E. eapply randbelow_loop_ok; eassumption. Qed.

Lemma randrange0_ok : forall n st r st', state_ok st ->
  randrange0 n st = Ok (r, st') -> (0 <= Z.of_N r < n)%Z /\ state_ok st'.
Proof.
  intros n st r st' H E. unfold randrange0 in E.
  destruct (Z.ltb_spec 0 n) as [Hn|Hn]; [|discriminate].
  destruct (randbelow (Z.to_N n) st) as [[r0 s0]|] eqn:R; [|discriminate].
  injection E as <- <-. destruct (randbelow_ok _ _ _ _ H R) as [A B]. split; [lia|assumption].
Qed.

(* randrange(0, n) never raises for n >= 1: it answers or the model's fuel runs out *)
Lemma randrange0_total : forall n st, (1 <= n)%Z ->
  (exists r, randrange0 n st = Ok r) \/ randrange0 n st = OutOfFuel.
Proof.
  intros n st Hn. unfold randrange0. destruct (Z.ltb_spec 0 n); [|lia].
  destruct (randbelow _ _); [left; eexists; reflexivity|right; reflexivity].
Qed.

(** * bisect and choices *)

#[local] Arguments genrand : simpl never.
#[local] Arguments random_ab : simpl never.
#[local] Arguments random : simpl never.
#[local] Arguments getrandbits : simpl never.
#[local] Arguments randbelow : simpl never.

Local Open Scope nat_scope.

Lemma div2_between : forall lo hi, lo < hi -> lo <= Nat.div2 (lo + hi) < hi.
Proof.
  intros lo hi H. pose proof (Nat.div2_odd (lo + hi)) as E.
  destruct (Nat.odd (lo + hi)); simpl in E; lia.
Qed.

Lemma bisect_range : forall fuel a x lo hi, lo <= hi -> lo <= bisect fuel a x lo hi <= hi.
Proof.
  induction fuel; intros a x lo hi H; simpl; [lia|].
  destruct (Nat.ltb_spec lo hi) as [Hl|Hl]; [|lia].
  pose proof (div2_between lo hi Hl).
  destruct (PrimFloat.ltb x _).
  - specialize (IHfuel a x lo (Nat.div2 (lo + hi))). lia.
  - specialize (IHfuel a x (S (Nat.div2 (lo + hi))) hi). lia.
Qed.

(* hi - lo + 1 rounds are enough: more fuel does not change the answer *)
Lemma bisect_fuel : forall f1 f2 a x lo hi, hi - lo < f1 -> hi - lo < f2 ->
  bisect f1 a x lo hi = bisect f2 a x lo hi.
Proof.
  induction f1; intros f2 a x lo hi H1 H2; [lia|]. destruct f2; [lia|]. simpl.
  destruct (Nat.ltb_spec lo hi) as [Hl|Hl]; [|reflexivity].
  pose proof (div2_between lo hi Hl).
  destruct (PrimFloat.ltb x _); apply IHf1; lia.
Qed.

Section ChoicesP.
  Context {A : Type}.

  Lemma choices_picks_ok : forall (pop : list A) cum total hi k st l st', state_ok st ->
    choices_picks pop cum total hi k st = Ok (l, st') ->
    List.length l = k /\ Forall (fun v => In v pop) l /\ state_ok st'.
  Proof.
    induction k; intros st l st' H E; cbn [choices_picks] in E.
    - injection E as <- <-. split; [reflexivity|split; [constructor|assumption]].
    - destruct (random st) as [u st1] eqn:R. pose proof (random_ok st H) as S1. rewrite R in S1; cbn [snd] in S1.
      destruct (nth_error pop _) as [v|] eqn:NE; [|discriminate].
      destruct (choices_picks pop cum total hi k st1) as [[l1 s1]| | |] eqn:P; cbn [bind fst snd] in E; try discriminate.
      injection E as <- <-. destruct (IHk _ _ _ S1 P) as [L1 [F1 S2]].
      split; [simpl; now rewrite L1|split; [|assumption]].
      constructor; [eapply nth_error_In; eassumption|assumption].
  Qed.

  Lemma choices_picks_total : forall (pop : list A) cum total hi k st, hi < List.length pop ->
    exists r, choices_picks pop cum total hi k st = Ok r.
  Proof.
    induction k; intros st H; cbn [choices_picks]; [eexists; reflexivity|].
    destruct (random st) as [u st1].
    destruct (nth_error pop _) as [v|] eqn:NE.
    - destruct (IHk st1 H) as [r E]. rewrite E. cbn [bind]. eexists; reflexivity.
    - exfalso. apply nth_error_None in NE.
      pose proof (bisect_range (S hi) cum (PrimFloat.mul u total) 0 hi ltac:(lia)). lia.
  Qed.

  Lemma choices_ok : forall (pop : list A) ws k st l st', state_ok st ->
    choices pop ws k st = Ok (l, st') ->
    List.length l = k /\ Forall (fun v => In v pop) l /\ state_ok st'.
  Proof.
    intros pop ws k st l st' H E. unfold choices in E.
    destruct (negb _); [discriminate|]. destruct (rev _); [discriminate|].
    destruct (PrimFloat.leb _ _); [discriminate|]. destruct (negb _); [discriminate|].
    eapply choices_picks_ok; eassumption.
  Qed.
End ChoicesP.

(* the two weight vectors of get_random_moves pass all of choices' checks (a computation on
   primitive floats): choices cannot raise there *)
Lemma choices_fd_total : forall k st, exists r, choices [0; 1; 2; 3] w_fd k st = Ok r.
Proof. intros k st. apply (choices_picks_total [0; 1; 2; 3]). simpl. lia. Qed.
Lemma choices_nofd_total : forall k st, exists r, choices [0; 1; 2] w_nofd k st = Ok r.
Proof. intros k st. apply (choices_picks_total [0; 1; 2]). simpl. lia. Qed.

(** * The board *)

#[local] Arguments choices : simpl never.
#[local] Arguments randrange0 : simpl never.
#[local] Arguments bisect : simpl never.
#[local] Arguments seed_Z : simpl never.
#[local] Arguments tile_mt : simpl never.

Lemma tile_mt_ok : forall m p st, state_ok st ->
  let '(r, t, st') := tile_mt m p st in t <= 1 /\ state_ok st'.
Proof.
  intros m p st H. unfold tile_mt.
  destruct (random st) as [u1 st1] eqn:R1. pose proof (random_ok st H) as S1. rewrite R1 in S1; simpl in S1.
  destruct (random st1) as [u2 st2] eqn:R2. pose proof (random_ok st1 S1) as S2. rewrite R2 in S2; simpl in S2.
  split; [destruct (PrimFloat.ltb u2 p); lia|assumption].
Qed.

Lemma row_tiles_ok : forall W m p st, state_ok st ->
  let '(rs, ts, st') := row_tiles_mt W m p st in
  List.length rs = W /\ List.length ts = W /\ Forall (fun t => t <= 1) ts /\ state_ok st'.
Proof.
  induction W; intros m p st H; cbn [row_tiles_mt].
  - split; [reflexivity|split; [reflexivity|split; [constructor|assumption]]].
  - pose proof (tile_mt_ok m p st H) as T. destruct (tile_mt m p st) as [[r t] st1]. destruct T as [T S1].
    pose proof (IHW m p st1 S1) as R. destruct (row_tiles_mt W m p st1) as [[rs ts] st2].
    destruct R as [A [B [C D]]]. cbn [List.length].
    split; [now rewrite A|split; [now rewrite B|split; [constructor; assumption|assumption]]].
Qed.

Definition zgrid (L W : nat) (g : list (list Z)) : Prop :=
  List.length g = L /\ forall row, In row g -> List.length row = W.

Lemma grid_cons : forall L W (okv : nat -> Prop) row g,
  List.length row = W -> Forall okv row -> grid L W okv g -> grid (S L) W okv (row :: g).
Proof.
  intros L W okv row g A B [G1 G2]. split; [simpl; now rewrite G1|].
  intros r [<-|I]; [split; assumption|apply G2; assumption].
Qed.

Lemma grid_nil : forall W (okv : nat -> Prop), grid 0 W okv [].
Proof. intros. split; [reflexivity|intros r []]. Qed.

Lemma grid_tiles_ok : forall L W m p st, state_ok st ->
  let '(rg, tg, st') := grid_tiles_mt L W m p st in
  zgrid L W rg /\ grid L W (fun t => t <= 1) tg /\ state_ok st'.
Proof.
  induction L; intros W m p st H; cbn [grid_tiles_mt].
  - split; [split; [reflexivity|intros r []]|split; [apply grid_nil|assumption]].
  - pose proof (row_tiles_ok W m p st H) as R. destruct (row_tiles_mt W m p st) as [[rs ts] st1].
    destruct R as [A [B [C S1]]].
    pose proof (IHL W m p st1 S1) as G. destruct (grid_tiles_mt L W m p st1) as [[rg tg] st2].
    destruct G as [[G1 G2] [G3 S2]].
    split; [|split; [apply grid_cons; assumption|assumption]].
    split; [simpl; now rewrite G1|]. intros r [<-|I]; [assumption|apply G2; assumption].
Qed.

Lemma row_moves_ok : forall W fd st row st', state_ok st ->
  row_moves_mt W fd st = Ok (row, st') ->
  List.length row = W /\ Forall (fun a => a < (if fd then 4 else 3)) row /\
  (In 3 row <-> fd = true) /\ state_ok st'.
Proof.
  intros W fd st row st' H E. unfold row_moves_mt in E. destruct fd.
  - destruct (choices [0; 1; 2; 3] w_fd W st) as [[cs s1]| | |] eqn:C; cbn [bind fst snd] in E; try discriminate.
    destruct (choices_ok _ _ _ _ _ _ H C) as [L1 [F1 S1]].
    destruct (randrange0 (Z.of_nat W) s1) as [[rr s2]| | |] eqn:R; cbn [bind fst snd] in E; try discriminate.
    injection E as <- <-. destruct (randrange0_ok _ _ _ _ S1 R) as [RR S2].
    split; [now rewrite set_nth_length|]. split; [|split; [|assumption]].
    + apply set_nth_forall; [lia|]. eapply Forall_impl; [|exact F1].
      simpl. intros a [<-|[<-|[<-|[<-|[]]]]]; lia.
    + split; [reflexivity|]. intros _. apply set_nth_in. lia.
  - destruct (choices_ok _ _ _ _ _ _ H E) as [L1 [F1 S1]].
    split; [assumption|]. split; [|split; [|assumption]].
    + eapply Forall_impl; [|exact F1]. simpl. intros a [<-|[<-|[<-|[]]]]; lia.
    + split; [|discriminate]. intros I. rewrite Forall_forall in F1. specialize (F1 3 I). simpl in F1.
      destruct F1 as [F|[F|[F|[]]]]; discriminate.
Qed.

Lemma moves_ok : forall L W fd st g st', state_ok st ->
  moves_mt L W fd st = Ok (g, st') ->
  grid L W (fun a => a < (if fd then 4 else 3)) g /\
  (forall row, In row g -> (In 3 row <-> fd = true)) /\ state_ok st'.
Proof.
  induction L; intros W fd st g st' H E; cbn [moves_mt] in E.
  - injection E as <- <-. split; [apply grid_nil|split; [intros r []|assumption]].
  - destruct (row_moves_mt W fd st) as [[row s1]| | |] eqn:R; cbn [bind fst snd] in E; try discriminate.
    destruct (row_moves_ok _ _ _ _ _ H R) as [A [B [C S1]]].
    destruct (moves_mt L W fd s1) as [[g1 s2]| | |] eqn:M; cbn [bind fst snd] in E; try discriminate.
    injection E as <- <-. destruct (IHL _ _ _ _ _ S1 M) as [G1 [G3 S2]].
    split; [apply grid_cons; assumption|]. split; [|assumption].
    intros r [<-|I]; [exact C|apply G3; assumption].
Qed.

(* the shape the property asks for, for boards whose rewards are Python ints *)
Definition mt_board_shape (L W : nat) (fd : bool)
           (b : list (list nat) * list (list Z) * list (list nat)) : Prop :=
  let '(moves, rewards, loose) := b in
  grid L W (fun a => a < (if fd then 4 else 3)) moves /\
  zgrid L W rewards /\
  grid L W (fun t => t <= 1) loose /\
  (forall row, In row moves -> (In 3 row <-> fd = true)).

Lemma board_mt_shape : forall seed L W p m fd b,
  gen_rnd_board_mt seed L W p m fd = Ok b -> mt_board_shape L W fd b.
Proof.
  intros seed L W p m fd b E. unfold gen_rnd_board_mt in E.
  destruct (match L with O => _ | S _ => _ end) as [[]| | |]; simpl in E; try discriminate.
  pose proof (grid_tiles_ok L W m p (seed_Z seed) (seed_Z_ok seed)) as G.
  destruct (grid_tiles_mt L W m p (seed_Z seed)) as [[rg tg] st1]. destruct G as [G1 [G2 S1]].
  destruct (moves_mt L W fd st1) as [[mv s2]| | |] eqn:M; simpl in E; try discriminate.
  injection E as <-. destruct (moves_ok _ _ _ _ _ _ S1 M) as [A [B _]].
  unfold mt_board_shape. tauto.
Qed.

(* which outcomes are possible at all: a board; ValueError exactly for the empty randrange of a
   zero-width forced-down row; OverflowError exactly for max_reward >= 1023 on a non-empty board;
   otherwise only the model's own fuel for the rejection loop can run out *)
Lemma row_moves_total : forall W fd st, 1 <= W ->
  (exists r, row_moves_mt W fd st = Ok r) \/ row_moves_mt W fd st = OutOfFuel.
Proof.
  intros W fd st HW. unfold row_moves_mt. destruct fd.
  - destruct (choices_fd_total W st) as [cs ->]. simpl.
    destruct (randrange0_total (Z.of_nat W) (snd cs) ltac:(lia)) as [[r ->]| ->]; simpl;
      [left; eexists; reflexivity|right; reflexivity].
  - destruct (choices_nofd_total W st) as [cs ->]. left; eexists; reflexivity.
Qed.

Lemma moves_total : forall L W fd st, 1 <= W ->
  (exists r, moves_mt L W fd st = Ok r) \/ moves_mt L W fd st = OutOfFuel.
Proof.
  induction L; intros W fd st HW; simpl; [left; eexists; reflexivity|].
  destruct (row_moves_total W fd st HW) as [[r ->]| ->]; simpl; [|right; reflexivity].
  destruct (IHL W fd (snd r) HW) as [[g ->]| ->]; simpl; [left; eexists; reflexivity|right; reflexivity].
Qed.

Lemma board_mt_total : forall seed L W p m fd, 1 <= W -> m < 1023 ->
  (exists b, gen_rnd_board_mt seed L W p m fd = Ok b) \/ gen_rnd_board_mt seed L W p m fd = OutOfFuel.
Proof.
  intros seed L W p m fd HW Hm. unfold gen_rnd_board_mt.
  assert (E : match L with O => Ok tt | S _ => match W with O => Ok tt | S _ =>
              if Nat.leb 1023 m then Crash "OverflowError" else Ok tt end end = Ok tt).
  { destruct L; [reflexivity|]. destruct W; [reflexivity|]. destruct (Nat.leb_spec 1023 m); [lia|reflexivity]. }
  rewrite E. simpl. destruct (grid_tiles_mt L W m p (seed_Z seed)) as [[rg tg] st1].
  destruct (moves_total L W fd st1 HW) as [[g ->]| ->]; simpl; [left; eexists; reflexivity|right; reflexivity].
Qed.
