(** Renaming the states of a game (C13): the set of states that can reach a final state, and hence
    the result of the backward search, changes only by the renaming. *)
From Coq Require Import String List Arith Bool Lia Sorted Permutation.
From CR Require Import Model.Outcome Model.Graph Proofs.GraphP.
Import ListNotations.

Record renaming (n : nat) (pi pinv : nat -> nat) : Prop := {
  rn_range : forall i, i < n -> pi i < n;
  rn_range_inv : forall j, j < n -> pinv j < n;
  rn_left : forall i, i < n -> pinv (pi i) = i;
  rn_right : forall j, j < n -> pi (pinv j) = j
}.

(* tl' is tl with state i renamed to pi i and every row reordered arbitrarily *)
Definition renamed_graph (n : nat) (pi : nat -> nat) (tl tl' : list (list nat)) : Prop :=
  length tl = n /\ length tl' = n /\
  (forall u v, u < n -> In v (nth u tl []) -> v < n) /\
  (forall i, i < n -> Permutation (nth (pi i) tl' []) (map pi (nth i tl []))).

Lemma edge_nth tl u v : edge tl u v <-> u < length tl /\ In v (nth u tl []).
Proof.
  unfold edge. split.
  - intros [s [H1 H2]]. split; [apply nth_error_Some; congruence|].
    rewrite (nth_error_nth _ _ _ H1). exact H2.
  - intros [H1 H2]. exists (nth u tl []). split; [apply nth_error_nth'; exact H1|exact H2].
Qed.

Section Renamed.
Variables (n : nat) (pi pinv : nat -> nat) (tl tl' : list (list nat)).
Hypothesis R : renaming n pi pinv.
Hypothesis G : renamed_graph n pi tl tl'.

Lemma edge_fwd u v : edge tl u v -> edge tl' (pi u) (pi v).
Proof.
  destruct G as (L1 & L2 & _ & P). rewrite !edge_nth. intros [Hu Hv]. rewrite L1 in Hu. split.
  - rewrite L2. apply (rn_range _ _ _ R). exact Hu.
  - apply (Permutation_in _ (Permutation_sym (P u Hu))). apply in_map. exact Hv.
Qed.

Lemma edge_bwd a c : edge tl' a c -> a < n /\ c < n /\ edge tl (pinv a) (pinv c).
Proof.
  destruct G as (L1 & L2 & T & P). rewrite !edge_nth. intros [Ha Hc]. rewrite L2 in Ha.
  pose proof (rn_range_inv _ _ _ R a Ha) as Hpa.
  rewrite <- (rn_right _ _ _ R a Ha) in Hc. apply (Permutation_in _ (P _ Hpa)) in Hc.
  apply in_map_iff in Hc. destruct Hc as [v [<- Hv]]. pose proof (T _ _ Hpa Hv) as Hvn.
  split; [exact Ha|]. split; [apply (rn_range _ _ _ R); exact Hvn|].
  rewrite (rn_left _ _ _ R v Hvn). split; [rewrite L1; exact Hpa|exact Hv].
Qed.

Lemma path_fwd s f : path tl s f -> path tl' (pi s) (pi f).
Proof. induction 1; [apply path_refl|]. eapply path_step; [apply edge_fwd; eassumption|assumption]. Qed.

Lemma path_bwd a b : path tl' a b -> path tl (pinv a) (pinv b).
Proof. induction 1 as [|a c b He _ IH]; [apply path_refl|]. eapply path_step; [apply edge_bwd; exact He|exact IH]. Qed.

Lemma path_iff s f : s < n -> f < n -> (path tl' (pi s) (pi f) <-> path tl s f).
Proof.
  intros Hs Hf. split; [|apply path_fwd]. intros H. apply path_bwd in H.
  rewrite !(rn_left _ _ _ R) in H by assumption. exact H.
Qed.

(* the backward search of the renamed game returns exactly the renamed states *)
Theorem reverse_dfs_equivariant finals finals' :
  (forall f, In f finals -> f < n) ->
  (forall f', In f' finals' <-> exists f, In f finals /\ f' = pi f) ->
  exists r r', reverse_dfs tl finals = Ok r /\ reverse_dfs tl' finals' = Ok r' /\
               forall s, s < n -> (In (pi s) r' <-> In s r).
Proof.
  intros Hf Hf'. destruct G as (L1 & L2 & _ & _).
  destruct (reverse_dfs_exact tl finals) as (r & E & _ & Hr); [intros f H; rewrite L1; apply Hf; exact H|].
  destruct (reverse_dfs_exact tl' finals') as (r' & E' & _ & Hr').
  { intros f' H. apply Hf' in H. destruct H as [f [H ->]]. rewrite L2. apply (rn_range _ _ _ R), Hf, H. }
  exists r, r'. split; [exact E|]. split; [exact E'|]. intros s Hs. rewrite Hr, Hr'.
  assert (Hfin : In (pi s) finals' <-> In s finals).
  { rewrite Hf'. split.
    - intros [f [H E0]]. assert (s = f); [|subst; exact H].
      rewrite <- (rn_left _ _ _ R s Hs), E0. apply (rn_left _ _ _ R). apply Hf. exact H.
    - intros H. exists s. split; [exact H|reflexivity]. }
  split.
  - intros [H1 [f' [H2 H3]]]. split; [rewrite <- Hfin; exact H1|].
    apply Hf' in H2. destruct H2 as [f [H2 ->]]. exists f. split; [exact H2|].
    apply path_iff; [exact Hs|apply Hf; exact H2|exact H3].
  - intros [H1 [f [H2 H3]]]. split; [rewrite Hfin; exact H1|].
    exists (pi f). split; [apply Hf'; exists f; split; [exact H2|reflexivity]|apply path_fwd; exact H3].
Qed.
End Renamed.
