(** Solver.prune_states: what a round does, monotone growth, termination within n+1 rounds, and the
    frame property (states reachable from state 0 are never touched).  Generic in the numbers. *)
From Coq Require Import String List Arith Bool Lia.
From CR Require Import Model.Num Model.Outcome Model.Graph Model.Game Proofs.GraphP Proofs.GameP.
Import ListNotations.

Section PS.
Context {T : Type}.
Variable K : ops T.
Notation node := (@node T).
Notation getn := (getn K).
Implicit Types sl : list node.

Definition targets (sl : list node) : list nat := flat_map (fun n => map dst (nxt n)) sl.
Definition rlist (sl : list node) : list nat := 0 :: targets sl.

Lemma round_length sl : length (fst (prune_states_round sl)) = length sl.
Proof. unfold prune_states_round. cbn [fst]. rewrite map_length, combine_length, seq_length. lia. Qed.

Lemma round_getn sl i :
  getn (fst (prune_states_round sl)) i =
  if ps_clear (rlist sl) i (getn sl i) then set_nxt (getn sl i) [] else getn sl i.
Proof.
  unfold prune_states_round. cbn [fst]. fold (targets sl). fold (rlist sl).
  destruct (Nat.lt_ge_cases i (length sl)) as [Hi|Hi].
  - unfold Game.getn at 1.
    set (f := fun ix : nat * node => _).
    rewrite (nth_indep _ (dnode K) (f (0, dnode K))) by (rewrite map_length, combine_length, seq_length; lia).
    rewrite map_nth, nth_combine_seq by exact Hi. subst f. cbn [fst snd]. reflexivity.
  - rewrite getn_out by (rewrite map_length, combine_length, seq_length; lia).
    rewrite (getn_out K sl i Hi). destruct (ps_clear _ _ _); reflexivity.
Qed.

Lemma in_combine_seq {A} (l : list A) a i x :
  In (i, x) (combine (seq a (length l)) l) <-> a <= i < a + length l /\ nth_error l (i - a) = Some x.
Proof.
  revert a. induction l as [|h t IH]; intros a; cbn [length seq combine].
  - split; [intros []|intros [H _]; lia].
  - cbn [In]. rewrite IH. split.
    + intros [E|[H1 H2]].
      * inversion E; subst. split; [lia|]. rewrite Nat.sub_diag. reflexivity.
      * split; [lia|]. replace (i - a) with (S (i - S a)) by lia. exact H2.
    + intros [H1 H2]. destruct (Nat.eq_dec i a) as [->|Hne].
      * left. rewrite Nat.sub_diag in H2. cbn in H2. congruence.
      * right. split; [lia|]. replace (i - a) with (S (i - S a)) in H2 by lia. exact H2.
Qed.

Lemma round_listed sl i :
  In i (snd (prune_states_round sl)) <-> i < length sl /\ ps_listed (rlist sl) i (getn sl i) = true.
Proof.
  unfold prune_states_round. cbn [snd]. fold (targets sl). fold (rlist sl).
  rewrite in_map_iff. split.
  - intros [[j n] [E H]]. cbn in E. subst j. apply filter_In in H. destruct H as [H1 H2].
    apply in_combine_seq in H1. destruct H1 as [H1 H3]. rewrite Nat.sub_0_r in H3. cbn [fst snd] in H2.
    split; [lia|]. unfold Game.getn. rewrite (nth_error_nth _ _ _ H3). exact H2.
  - intros [H1 H2]. exists (i, getn sl i). split; [reflexivity|]. apply filter_In. split; [|exact H2].
    apply in_combine_seq. split; [lia|]. rewrite Nat.sub_0_r. unfold Game.getn.
    apply nth_error_nth'. exact H1.
Qed.

Lemma NoDup_map_fst_filter_seq {A} (f : nat * A -> bool) (l : list A) a :
  NoDup (map fst (filter f (combine (seq a (length l)) l))).
Proof.
  revert a. induction l as [|h t IH]; intros a; cbn [length seq combine filter]; [constructor|].
  destruct (f (a, h)); [|apply IH]. cbn [map fst]. constructor; [|apply IH].
  rewrite in_map_iff. intros [[j x] [E H]]. cbn in E. subst j. apply filter_In in H. destruct H as [H _].
  apply in_combine_seq in H. lia.
Qed.

Lemma round_NoDup sl : NoDup (snd (prune_states_round sl)).
Proof. unfold prune_states_round. cbn [snd]. apply NoDup_map_fst_filter_seq. Qed.

Lemma round_listed_bound sl i : In i (snd (prune_states_round sl)) -> i < length sl.
Proof. intros H. apply round_listed in H. apply H. Qed.

(* the round only ever empties transition lists: targets shrink *)
Lemma round_targets sl x : In x (targets (fst (prune_states_round sl))) -> In x (targets sl).
Proof.
  unfold targets. rewrite !in_flat_map. intros [n1 [Hn1 Hx]].
  apply In_nth with (d := dnode K) in Hn1. destruct Hn1 as [i [Hi E]].
  rewrite round_length in Hi. change (nth i (fst (prune_states_round sl)) (dnode K)) with (getn (fst (prune_states_round sl)) i) in E.
  rewrite round_getn in E. destruct (ps_clear _ _ _).
  - subst n1. cbn in Hx. destruct Hx.
  - exists (getn sl i). split; [apply nth_In; exact Hi|]. subst n1. exact Hx.
Qed.

Lemma mem_nat_rlist_mono sl i :
  mem_nat i (rlist sl) = false -> mem_nat i (rlist (fst (prune_states_round sl))) = false.
Proof.
  rewrite !mem_nat_false. intros H [H0|H1]; apply H; [left; exact H0|right; apply round_targets; exact H1].
Qed.

Lemma round_monotone sl i :
  In i (snd (prune_states_round sl)) -> In i (snd (prune_states_round (fst (prune_states_round sl)))).
Proof.
  intros H. apply round_listed in H. destruct H as [Hi Hl]. apply round_listed. rewrite round_length, round_getn. split; [exact Hi|].
  unfold ps_listed in *. apply orb_true_iff in Hl. destruct Hl as [Hc|Hp].
  - rewrite Hc. unfold ps_clear in *. apply andb_true_iff in Hc. destruct Hc as [Hk Hm].
    cbn [nk set_nxt]. rewrite Hk. apply negb_true_iff in Hm. rewrite (mem_nat_rlist_mono _ _ Hm). reflexivity.
  - apply andb_true_iff in Hp. destruct Hp as [Hp Hm]. apply andb_true_iff in Hp. destruct Hp as [Hk He].
    assert (Hc : ps_clear (rlist sl) i (getn sl i) = false) by (unfold ps_clear; rewrite Hk; reflexivity).
    rewrite Hc. apply orb_true_iff. right. rewrite Hk, He. apply negb_true_iff in Hm.
    rewrite (mem_nat_rlist_mono _ _ Hm). reflexivity.
Qed.

Lemma incl_b_incl a b : incl_b a b = true <-> incl a b.
Proof.
  unfold incl_b. rewrite forallb_forall. split; intros H x Hx; [apply mem_nat_In|apply mem_nat_In]; apply H; exact Hx.
Qed.

(* the loop ends within (number of states + 1) rounds: it never runs out of the fuel solve gives it *)
Lemma prune_states_terminates : forall fuel old sl,
  NoDup old -> incl old (snd (prune_states_round sl)) ->
  length sl - length old < fuel ->
  exists sl', prune_states fuel old sl = Ok sl'.
Proof.
  induction fuel as [|fuel IH]; intros old sl Hnd Hincl Hf; [lia|].
  cbn [prune_states]. set (r := prune_states_round sl) in *.
  destruct (incl_b (snd r) old && incl_b old (snd r)) eqn:E; [eexists; reflexivity|].
  apply IH.
  - apply round_NoDup.
  - intros i Hi. apply round_monotone. exact Hi.
  - assert (Hrl : length (fst r) = length sl) by apply round_length. rewrite Hrl.
    assert (Hlen : length old < length (snd r)).
    { pose proof (NoDup_incl_length Hnd Hincl) as Hle.
      destruct (Nat.eq_dec (length old) (length (snd r))) as [Heq|Hne]; [|lia].
      exfalso. assert (Hi2 : incl (snd r) old).
      { apply NoDup_length_incl; [exact Hnd|lia|exact Hincl]. }
      apply incl_b_incl in Hi2. apply incl_b_incl in Hincl. rewrite Hi2, Hincl in E. discriminate. }
    assert (Hb : length (snd r) <= length sl).
    { pose proof (round_NoDup sl) as Hnd2. fold r in Hnd2.
      assert (Hi3 : incl (snd r) (seq 0 (length sl))).
      { intros i Hi. apply in_seq. apply round_listed_bound in Hi. lia. }
      pose proof (NoDup_incl_length Hnd2 Hi3) as H. rewrite seq_length in H. exact H. }
    lia.
Qed.

Theorem prune_states_never_out_of_fuel sl :
  exists sl', prune_states (length sl + 2) [] sl = Ok sl'.
Proof. apply prune_states_terminates; [constructor|intros x []|cbn; lia]. Qed.

(** ** frame *)
Inductive reach0 (sl : list node) : nat -> Prop :=
| reach0_init : reach0 sl 0
| reach0_step u t : reach0 sl u -> In t (nxt (getn sl u)) -> reach0 sl (dst t).

Lemma reach0_in_rlist sl i : reach0 sl i -> In i (rlist sl).
Proof.
  intros H. destruct H as [|u t Hu Ht]; [left; reflexivity|]. right. unfold targets. apply in_flat_map.
  exists (getn sl u). split; [|apply in_map; exact Ht].
  destruct (Nat.lt_ge_cases u (length sl)) as [Hl|Hl]; [apply nth_In; exact Hl|].
  rewrite getn_out in Ht by exact Hl. destruct Ht.
Qed.

Lemma round_frame sl i : reach0 sl i -> getn (fst (prune_states_round sl)) i = getn sl i.
Proof.
  intros H. rewrite round_getn. apply reach0_in_rlist in H. apply mem_nat_In in H.
  unfold ps_clear. rewrite H, andb_false_r. reflexivity.
Qed.

Lemma round_reach0 sl i : reach0 sl i -> reach0 (fst (prune_states_round sl)) i.
Proof.
  induction 1 as [|u t Hu IH Ht]; [constructor|]. eapply reach0_step; [exact IH|].
  rewrite round_frame by exact Hu. exact Ht.
Qed.

(* states reachable from state 0 keep everything, in particular all their transitions *)
Theorem prune_states_frame : forall fuel old sl sl' i,
  prune_states fuel old sl = Ok sl' -> reach0 sl i -> getn sl' i = getn sl i /\ reach0 sl' i.
Proof.
  induction fuel as [|fuel IH]; intros old sl sl' i H Hr; cbn [prune_states] in H; [discriminate|].
  destruct (_ && _).
  - inversion H; subst. split; [apply round_frame; exact Hr|apply round_reach0; exact Hr].
  - destruct (IH _ _ _ i H (round_reach0 _ _ Hr)) as [H1 H2]. split; [|exact H2].
    rewrite H1. apply round_frame. exact Hr.
Qed.

(* every other state is either unchanged or has just lost its transition list; Player 1 states never change *)
Definition only_cleared (a b : node) : Prop := b = a \/ (b = set_nxt a [] /\ nk a <> P1).

Lemma round_only_cleared sl i : only_cleared (getn sl i) (getn (fst (prune_states_round sl)) i).
Proof.
  rewrite round_getn. unfold ps_clear. destruct (kind_eqb (nk (getn sl i)) P1) eqn:E; cbn [negb andb].
  - left. reflexivity.
  - destruct (negb _); [right|left; reflexivity]. split; [reflexivity|].
    intros Hk. rewrite Hk in E. discriminate.
Qed.

Theorem prune_states_only_cleared : forall fuel old sl sl' i,
  prune_states fuel old sl = Ok sl' -> only_cleared (getn sl i) (getn sl' i) /\ length sl' = length sl.
Proof.
  induction fuel as [|fuel IH]; intros old sl sl' i H; cbn [prune_states] in H; [discriminate|].
  destruct (_ && _).
  - inversion H; subst. split; [apply round_only_cleared|apply round_length].
  - destruct (IH _ _ _ i H) as [H1 H2]. rewrite round_length in H2. split; [|exact H2].
    pose proof (round_only_cleared sl i) as H0. destruct H0 as [E0|[E0 Hk0]], H1 as [E1|[E1 Hk1]].
    + left. congruence.
    + right. rewrite E0 in E1, Hk1. split; assumption.
    + right. rewrite E1, E0. split; [reflexivity|exact Hk0].
    + right. rewrite E1, E0. split; [reflexivity|exact Hk0].
Qed.

End PS.
