(** C08: the generator's numbering [idx] is a bisimulation between the Roborta rule game
    (Spec/Roborta.v) and each emitted game (Model/Board.v), for all board sizes, all boards and
    symbolic probabilities (generic in the number operations: no arithmetic law is used). *)
From Coq Require Import String List Arith Bool Lia.
From CR Require Import Model.Num Model.Outcome Model.Graph Model.Game Model.Board.
From CR Require Import Spec.Roborta Proofs.BoardP.
Import ListNotations.

Lemma Forall2_map_r {A B} (P : A -> B -> Prop) (f : A -> B) l :
  (forall x, In x l -> P x (f x)) -> Forall2 P l (map f l).
Proof.
  induction l as [|x l IH]; intros H; cbn [map]; constructor.
  - apply H. left. reflexivity.
  - apply IH. intros y Hy. apply H. right. assumption.
Qed.

Section Bisim.
Context {T : Type} (K : ops T).
Variables (L W : nat) (moves : nat -> nat -> nat) (rewards : nat -> nat -> T)
          (loose : nat -> nat -> nat) (ptb prb plb : T).
Hypothesis HL : 1 <= L.
Hypothesis HW : 1 <= W.
Hypothesis Hmoves : forall i j, i < L -> j < W -> moves i j <= 3.
Notation n := (L * W).

(* the board the rules are read from *)
Definition board_arrows (i j : nat) : arrow := arrow_of (moves i j).
Definition board_loose (i j : nat) : bool := loose i j =? 1.

Notation RT := (rtrans K L W board_arrows board_loose ptb prb plb).
Notation VALID := (valid L W board_arrows).
Notation IDX := (idx L W).
Notation tr := (trans (T:=T)).

Definition to_trans (v : variant) (x : string * T * rstate) : tr :=
  mkT (fst (fst x)) (snd (fst x)) (IDX v (snd x)).

(** ** the phases are closed under the rules *)
Lemma left_of_lt j : left_of W j < W.
Proof. unfold left_of. apply Nat.mod_upper_bound. lia. Qed.
Lemma right_of_lt j : right_of W j < W.
Proof. unfold right_of. apply Nat.mod_upper_bound. lia. Qed.

Lemma valid_below v i j : i < L -> j < W -> VALID v (below L i j).
Proof.
  intros Hi Hj. unfold below. destruct (Nat.ltb_spec (i + 1) L); cbn [valid]; [|exact I].
  split; assumption.
Qed.

Lemma valid_closed v s x : VALID v s -> In x (RT v s) -> VALID v (snd x).
Proof.
  intros Hv Hin. pose proof left_of_lt as Hl. pose proof right_of_lt as Hr.
  destruct s; cbn [valid] in Hv; unfold on_board in Hv; cbn [rtrans] in Hin;
    repeat match type of Hin with
           | context [if ?c then _ else _] => destruct c eqn:?
           end;
    cbn [In app] in Hin;
    repeat match type of Hin with
           | _ \/ _ => destruct Hin as [Hin|Hin]
           | False => destruct Hin
           end;
    subst x; cbn [snd move chance]; try (destruct v); cbn [valid]; unfold on_board in *;
    try (apply valid_below; tauto);
    try (intuition (try congruence; try discriminate; auto)).
Qed.

Lemma valid_start v : VALID v (Light 0 0).
Proof. cbn [valid]. unfold on_board. split; lia. Qed.

Lemma idx_start v : IDX v (Light 0 0) = 0.
Proof. cbn [idx group]. lia. Qed.

(** ** owners, rewards, final states *)
Lemma players_group a b g c : c < n ->
  nth (g * n + c) (my_players L W a b) PR =
  if g =? 0 then P2 else if g <=? a then P1 else PR.
Proof.
  intros Hc. rewrite my_players_nth.
  destruct (Nat.eqb_spec g 0) as [->|Hg].
  - destruct (Nat.ltb_spec (0 * n + c) n); [reflexivity|lia].
  - destruct (Nat.ltb_spec (g * n + c) n); [nia|].
    destruct (Nat.leb_spec g a); destruct (Nat.ltb_spec (g * n + c) (n + n * a)); try reflexivity; nia.
Qed.

Ltac on_cell H i j :=
  let Hi := fresh "Hi" in let Hj := fresh "Hj" in
  destruct H as [Hi Hj]; pose proof (cell_lt L W i j Hi Hj).

Lemma owner_ok v a b (total : nat) s :
  total = 1 + a + b -> groups v = total ->
  (a = match v with VC => 3 | _ => 2 end) ->
  VALID v s -> nth (IDX v s) (my_players L W a b) PR = owner s.
Proof.
  intros Htot Hg Ha Hv.
  destruct s; cbn [valid] in Hv; unfold on_board in Hv; cbn [idx owner];
    try (rewrite Hg; destruct (ends_players L W a b total Htot) as [E1 E2]; (exact E1 || exact E2)).
  all: rewrite <- Nat.add_assoc; rewrite players_group; [|apply cell_lt; tauto].
  all: destruct v; cbn [group]; subst a; cbn [Nat.eqb Nat.leb]; try reflexivity.
  all: exfalso; intuition congruence.
Qed.

Lemma reward_ok v total s :
  VALID v s -> nth (IDX v s) (my_rewards K L W rewards total) (zero K) = rreward K rewards s.
Proof.
  intros Hv. destruct s; cbn [valid] in Hv; unfold on_board in Hv; cbn [idx rreward group].
  - replace (0 * n + i * W + j) with (i * W + j) by lia. apply my_rewards_cell; tauto.
  - apply my_rewards_rest. lia.
  - apply my_rewards_rest. lia.
  - apply my_rewards_rest. lia.
  - apply my_rewards_rest. destruct v; cbn [group]; lia.
  - apply my_rewards_rest. destruct v; cbn [group]; lia.
  - apply my_rewards_rest. destruct v; cbn [group]; lia.
  - apply my_rewards_rest. destruct v; cbn [group]; lia.
  - apply my_rewards_rest. lia.
  - apply my_rewards_rest. lia.
  - apply my_rewards_rest. destruct v; cbn [groups]; lia.
  - apply my_rewards_rest. destruct v; cbn [groups]; lia.
Qed.

Definition pos (s : rstate) : option (nat * nat) :=
  match s with
  | Light i j | Down i j | LR i j | Free i j | Land i j | TryDown i j | TryLeft i j | TryRight i j
  | SigGreen i j | SigYellow i j => Some (i, j)
  | Lost | Won => None
  end.

Lemma valid_pos v s i j : VALID v s -> pos s = Some (i, j) -> i < L /\ j < W.
Proof.
  intros Hv E. destruct s; cbn [pos] in E; try discriminate; injection E as -> ->;
    cbn [valid] in Hv; unfold on_board in Hv; tauto.
Qed.

Lemma group_lt v s : VALID v s -> pos s <> None -> group v s < groups v.
Proof.
  intros Hv Hp. destruct s; cbn [pos] in Hp; try congruence; cbn [valid] in Hv;
    destruct v; cbn [group groups]; try lia; exfalso; intuition congruence.
Qed.

(* every related index is a state *)
Lemma idx_lt v s : VALID v s -> IDX v s < groups v * n + 2.
Proof.
  intros Hv. destruct (pos s) as [[i j]|] eqn:E.
  - destruct (valid_pos v s i j Hv E) as [Hi Hj]. pose proof (cell_lt L W i j Hi Hj).
    assert (Hg : group v s < groups v) by (apply group_lt; [assumption|congruence]).
    assert (IDX v s = group v s * n + (i * W + j)) as ->
      by (destruct s; cbn [pos] in E; try discriminate; injection E as -> ->; cbn [idx]; lia).
    nia.
  - destruct s; cbn [pos] in E; try discriminate; cbn [idx]; lia.
Qed.

Lemma final_ok v s : VALID v s -> mem_nat (IDX v s) [n * groups v + 1] = rfinal s.
Proof.
  intros Hv. destruct (pos s) as [[i j]|] eqn:E.
  - destruct (valid_pos v s i j Hv E) as [Hi Hj]. pose proof (cell_lt L W i j Hi Hj).
    assert (Hg : group v s < groups v) by (apply group_lt; [assumption|congruence]).
    assert (IDX v s = group v s * n + (i * W + j)) as ->
      by (destruct s; cbn [pos] in E; try discriminate; injection E as -> ->; cbn [idx]; lia).
    replace (rfinal s) with false by (destruct s; cbn [pos] in E; try discriminate; reflexivity).
    apply mem_single_neq. nia.
  - destruct s; cbn [pos] in E; try discriminate; cbn [idx rfinal].
    + apply mem_single_neq. lia.
    + replace (groups v * n + 1) with (n * groups v + 1) by lia. apply mem_single_eq.
Qed.

(** ** transition lists, state by state *)
Lemma mkT_dst (a : string) (p : T) d d' : d = d' -> mkT a p d = mkT a p d'.
Proof. intros ->. reflexivity. Qed.

Ltac rows :=
  repeat first [ reflexivity
               | apply (f_equal2 (@cons tr)); [apply mkT_dst; try lia|] ].
Ltac spec_pre :=
  cbn [rtrans arrow_of down_only can_left can_right]; cbn [map app];
  unfold to_trans, move, chance, comp; cbn [fst snd].
Ltac spec_side := spec_pre; cbn [idx group groups].

Lemma below_idx v i j g : i < L -> j < W -> g = group v (Land 0 0) ->
  IDX v (below L i j) = if i <? L - 1 then g * n + i * W + j + W else n * groups v + 1.
Proof.
  intros Hi Hj ->. unfold below.
  destruct (Nat.ltb_spec (i + 1) L); destruct (Nat.ltb_spec i (L - 1)); try lia; cbn [idx group]; lia.
Qed.

Lemma A_trans s : VALID VA s ->
  nth (IDX VA s) (g_trans (gen_A K L W moves rewards loose ptb)) [] = map (to_trans VA) (RT VA s).
Proof.
  intros Hv. rewrite gen_A_trans.
  destruct s; cbn [valid] in Hv; unfold on_board in Hv; try (exfalso; intuition congruence).
  - (* Light *)
    destruct Hv as [Hi Hj]. cbn [idx group]. rewrite nth_groups by (assumption || (cbn; lia)).
    cbn [nth cells_A cells_A_with]. unfold player_two_cell, board_arrows. spec_side.
    pose proof (Hmoves i j Hi Hj). unfold board_arrows.
    destruct (moves i j) as [|[|[|[|k]]]]; try lia; cbn [Nat.eqb negb]; spec_side; rows.
  - (* Down *)
    destruct Hv as [Hi Hj]. cbn [idx group]. rewrite nth_groups by (assumption || (cbn; lia)).
    cbn [nth cells_A cells_A_with]. unfold player_one_down_cell. cbn [not_ws]. spec_pre.
    destruct (Nat.eqb_spec (n * 4 + 1) 0); [lia|].
    rewrite (below_idx VA i j 3) by (assumption || reflexivity). cbn [groups].
    destruct (i <? L - 1); rows.
  - (* LR *)
    destruct Hv as [[Hi Hj] Hd]. cbn [idx group]. rewrite nth_groups by (assumption || (cbn; lia)).
    cbn [nth cells_A cells_A_with]. unfold player_one_left_right_cell. rewrite Nat.eqb_refl. cbn [negb fst snd].
    rewrite (py_pred_mod_spec W j Hj). unfold board_arrows in *. spec_side. unfold left_of, right_of.
    pose proof (Hmoves i j Hi Hj).
    destruct (moves i j) as [|[|[|[|k]]]]; try lia; cbn [by_move]; spec_side; try discriminate; rows.
  - (* Land *)
    destruct Hv as [Hi Hj]. cbn [idx group]. rewrite nth_groups by (assumption || (cbn; lia)).
    cbn [nth cells_A cells_A_with]. unfold prob_tile_break_cell, board_loose. spec_side. unfold board_loose.
    destruct (loose i j =? 1); spec_side; rows.
  - (* Lost *)
    cbn [idx groups]. replace (4 * n) with (length (cells_A K L W moves loose ptb) * n + 0) by (cbn; lia).
    rewrite nth_groups_tail. cbn [nth tail_of]. spec_side. rows.
  - (* Won *)
    cbn [idx groups]. change 4 with (length (cells_A K L W moves loose ptb)).
    rewrite nth_groups_tail. cbn [nth tail_of]. spec_side. cbn [length cells_A cells_A_with]. rows.
Qed.

Lemma left_of_cases j : j < W -> left_of W j = if j =? 0 then W - 1 else j - 1.
Proof.
  intros Hj. unfold left_of. destruct (Nat.eqb_spec j 0) as [->|Hn].
  - replace (0 + W - 1) with (W - 1) by lia. apply Nat.mod_small. lia.
  - replace (j + W - 1) with (j - 1 + 1 * W) by lia. rewrite Nat.mod_add by lia. apply Nat.mod_small. lia.
Qed.

Lemma right_of_cases j : j < W -> right_of W j = if j =? W - 1 then 0 else j + 1.
Proof.
  intros Hj. unfold right_of. destruct (Nat.eqb_spec j (W - 1)) as [->|Hn].
  - replace (W - 1 + 1) with W by lia. apply Nat.mod_same. lia.
  - apply Nat.mod_small. lia.
Qed.

Ltac open_cell := cbn [idx group]; rewrite nth_groups by (assumption || (cbn; lia));
                  cbn [nth cells_A cells_A_with cells_B cells_C].

Lemma B_trans s : VALID VB s ->
  nth (IDX VB s) (g_trans (gen_B K L W moves rewards loose ptb prb)) [] = map (to_trans VB) (RT VB s).
Proof.
  intros Hv. rewrite gen_B_trans. pose proof (n_pos L W HL HW) as Hn.
  destruct s; cbn [valid] in Hv; unfold on_board in Hv; try (exfalso; intuition congruence).
  - (* Light *)
    destruct Hv as [Hi Hj]. open_cell. unfold player_two_cell, board_arrows. spec_side.
    pose proof (Hmoves i j Hi Hj). unfold board_arrows.
    destruct (moves i j) as [|[|[|[|k]]]]; try lia; cbn [Nat.eqb negb]; spec_side; rows.
  - (* Down *)
    destruct Hv as [Hi Hj]. open_cell. unfold player_one_down_cell. cbn [not_ws]. spec_side. rows.
  - (* LR *)
    destruct Hv as [[Hi Hj] Hd]. open_cell. unfold player_one_left_right_cell.
    destruct (Nat.eqb_spec (5 * n) (6 * n)); [lia|]. cbn [negb fst snd].
    unfold board_arrows in *. spec_side. pose proof (Hmoves i j Hi Hj).
    destruct (moves i j) as [|[|[|[|k]]]]; try lia; cbn [by_move]; spec_side; try discriminate; rows.
  - (* Land *)
    destruct Hv as [Hi Hj]. open_cell. unfold prob_tile_break_cell, board_loose. spec_side. unfold board_loose.
    destruct (loose i j =? 1); spec_side; rows.
  - (* TryDown *)
    destruct Hv as [_ [Hi Hj]]. open_cell. unfold prob_robot_down_break_cell. spec_pre.
    rewrite (below_idx VB i j 3) by (assumption || reflexivity). cbn [idx group groups].
    destruct (i <? L - 1); rows.
  - (* TryLeft *)
    destruct Hv as [_ [Hi Hj]]. open_cell. unfold prob_robot_left_break_cell. spec_side.
    rewrite (left_of_cases j Hj). destruct (Nat.eqb_spec j 0); rows.
  - (* TryRight *)
    destruct Hv as [_ [Hi Hj]]. open_cell. unfold prob_robot_right_break_cell. spec_side.
    rewrite (right_of_cases j Hj). destruct (Nat.eqb_spec j (W - 1)); rows.
  - (* Lost *)
    cbn [idx groups]. replace (7 * n) with (length (cells_B K L W moves loose ptb prb) * n + 0) by (cbn; lia).
    rewrite nth_groups_tail. cbn [nth tail_of]. spec_side. rows.
  - (* Won *)
    cbn [idx groups]. change 7 with (length (cells_B K L W moves loose ptb prb)).
    rewrite nth_groups_tail. cbn [nth tail_of]. spec_side. cbn [length cells_B]. rows.
Qed.

Lemma C_trans s : VALID VC s ->
  nth (IDX VC s) (g_trans (gen_C K L W moves rewards loose ptb prb plb)) [] = map (to_trans VC) (RT VC s).
Proof.
  intros Hv. rewrite gen_C_trans. pose proof (n_pos L W HL HW) as Hn.
  destruct s; cbn [valid] in Hv; unfold on_board in Hv; try (exfalso; intuition congruence).
  - (* Light *)
    destruct Hv as [Hi Hj]. open_cell. unfold player_two_cell, board_arrows. spec_side.
    pose proof (Hmoves i j Hi Hj). unfold board_arrows.
    destruct (moves i j) as [|[|[|[|k]]]]; try lia; cbn [Nat.eqb negb]; spec_side; rows.
  - (* Down *)
    destruct Hv as [Hi Hj]. open_cell. unfold player_one_down_cell. cbn [not_ws]. spec_side. rows.
  - (* LR *)
    destruct Hv as [[Hi Hj] Hd]. open_cell. unfold player_one_left_right_cell.
    destruct (Nat.eqb_spec (6 * n) (7 * n)); [lia|]. cbn [negb fst snd].
    unfold board_arrows in *. spec_side. pose proof (Hmoves i j Hi Hj).
    destruct (moves i j) as [|[|[|[|k]]]]; try lia; cbn [by_move]; spec_side; try discriminate; rows.
  - (* Free *)
    destruct Hv as [_ [Hi Hj]]. open_cell. unfold player_one_down_left_right_cell.
    unfold board_arrows in *. spec_side. pose proof (Hmoves i j Hi Hj).
    destruct (moves i j) as [|[|[|[|k]]]]; try lia; cbn [by_move]; spec_side; rows.
  - (* Land *)
    destruct Hv as [Hi Hj]. open_cell. unfold prob_tile_break_cell, board_loose. spec_side. unfold board_loose.
    destruct (loose i j =? 1); spec_side; rows.
  - (* TryDown *)
    destruct Hv as [_ [Hi Hj]]. open_cell. unfold prob_robot_down_break_cell. spec_pre.
    rewrite (below_idx VC i j 4) by (assumption || reflexivity). cbn [idx group groups].
    destruct (i <? L - 1); rows.
  - (* TryLeft *)
    destruct Hv as [_ [Hi Hj]]. open_cell. unfold prob_robot_left_break_cell. spec_side.
    rewrite (left_of_cases j Hj). destruct (Nat.eqb_spec j 0); rows.
  - (* TryRight *)
    destruct Hv as [_ [Hi Hj]]. open_cell. unfold prob_robot_right_break_cell. spec_side.
    rewrite (right_of_cases j Hj). destruct (Nat.eqb_spec j (W - 1)); rows.
  - (* SigGreen *)
    destruct Hv as [_ [Hi Hj]]. open_cell. unfold prob_light_break_cell. spec_side. rows.
  - (* SigYellow *)
    destruct Hv as [_ [[Hi Hj] _]]. open_cell. unfold prob_light_break_cell. spec_side. rows.
  - (* Lost *)
    cbn [idx groups]. replace (10 * n) with (length (cells_C K L W moves loose ptb prb plb) * n + 0) by (cbn; lia).
    rewrite nth_groups_tail. cbn [nth tail_of]. spec_side. rows.
  - (* Won *)
    cbn [idx groups]. change 10 with (length (cells_C K L W moves loose ptb prb plb)).
    rewrite nth_groups_tail. cbn [nth tail_of]. spec_side. cbn [length cells_C]. rows.
Qed.

(** ** the bisimulation *)
Lemma bisim_from_facts v (g : game (T:=T)) a b :
  g_players g = my_players L W a b -> groups v = 1 + a + b ->
  a = match v with VC => 3 | _ => 2 end ->
  g_rewards g = my_rewards K L W rewards (groups v) -> g_finals g = [n * groups v + 1] ->
  (forall s, VALID v s -> nth (IDX v s) (g_trans g) [] = map (to_trans v) (RT v s)) ->
  bisimulation (roborta K L W board_arrows rewards board_loose ptb prb plb v) (game_lts K g) (idx_rel L W board_arrows v).
Proof.
  intros Hp Hg Ha Hr Hf Ht s k [Hv ->]. cbn [roborta game_lts l_owner l_reward l_final l_trans].
  split; [|split; [|split]].
  - rewrite Hp. symmetry. apply (owner_ok v a b (groups v)); (assumption || reflexivity).
  - rewrite Hr. symmetry. apply reward_ok. assumption.
  - rewrite Hf. symmetry. apply final_ok. assumption.
  - rewrite (Ht s Hv), map_map. apply Forall2_map_r. intros x Hx.
    cbn [to_trans act pr dst fst snd]. repeat split. eapply valid_closed; eassumption.
Qed.

Lemma A_bisim :
  bisimulation (roborta K L W board_arrows rewards board_loose ptb prb plb VA)
               (game_lts K (gen_A K L W moves rewards loose ptb)) (idx_rel L W board_arrows VA).
Proof. apply (bisim_from_facts VA _ 2 1); try reflexivity. apply A_trans. Qed.

Lemma B_bisim :
  bisimulation (roborta K L W board_arrows rewards board_loose ptb prb plb VB)
               (game_lts K (gen_B K L W moves rewards loose ptb prb)) (idx_rel L W board_arrows VB).
Proof. apply (bisim_from_facts VB _ 2 4); try reflexivity. apply B_trans. Qed.

Lemma C_bisim :
  bisimulation (roborta K L W board_arrows rewards board_loose ptb prb plb VC)
               (game_lts K (gen_C K L W moves rewards loose ptb prb plb)) (idx_rel L W board_arrows VC).
Proof. apply (bisim_from_facts VC _ 3 6); try reflexivity. apply C_trans. Qed.

Lemma rel_start v : idx_rel L W board_arrows v (Light 0 0) 0.
Proof. split; [apply valid_start|symmetry; apply idx_start]. Qed.

Lemma A_range s k : idx_rel L W board_arrows VA s k -> k < length (g_players (gen_A K L W moves rewards loose ptb)).
Proof.
  intros [Hv ->]. destruct (gen_A_lengths K L W moves rewards loose ptb) as [(_ & -> & _) _].
  apply (idx_lt VA s Hv).
Qed.
Lemma B_range s k : idx_rel L W board_arrows VB s k -> k < length (g_players (gen_B K L W moves rewards loose ptb prb)).
Proof.
  intros [Hv ->]. destruct (gen_B_lengths K L W moves rewards loose ptb prb) as [(_ & -> & _) _].
  apply (idx_lt VB s Hv).
Qed.
Lemma C_range s k : idx_rel L W board_arrows VC s k -> k < length (g_players (gen_C K L W moves rewards loose ptb prb plb)).
Proof.
  intros [Hv ->]. destruct (gen_C_lengths K L W moves rewards loose ptb prb plb) as [(_ & -> & _) _].
  apply (idx_lt VC s Hv).
Qed.

End Bisim.

(** * The three theorems, closed *)
Definition bisim_statement {T} (K : ops T) (v : variant) (L W : nat) (moves : nat -> nat -> nat)
           (rewards : nat -> nat -> T) (loose : nat -> nat -> nat) (ptb prb plb : T) (g : game (T:=T)) : Prop :=
  let board_arrows := fun i j => arrow_of (moves i j) in
  let board_loose := fun i j => loose i j =? 1 in
  let R := idx_rel L W board_arrows v in
  bisimulation (roborta K L W board_arrows rewards board_loose ptb prb plb v) (game_lts K g) R /\
  R (Light 0 0) 0 /\
  (forall s k, R s k -> k < length (g_players g)).

Lemma A_bisim_full {T} (K : ops T) L W moves rewards loose ptb prb plb :
  1 <= L -> 1 <= W -> (forall i j, i < L -> j < W -> moves i j <= 3) ->
  bisim_statement K VA L W moves rewards loose ptb prb plb (gen_A K L W moves rewards loose ptb).
Proof.
  intros HL HW Hm. split; [|split].
  - exact (A_bisim K L W moves rewards loose ptb prb plb HL HW Hm).
  - exact (rel_start L W moves HL HW _).
  - exact (A_range K L W moves rewards loose ptb HL HW).
Qed.

Lemma B_bisim_full {T} (K : ops T) L W moves rewards loose ptb prb plb :
  1 <= L -> 1 <= W -> (forall i j, i < L -> j < W -> moves i j <= 3) ->
  bisim_statement K VB L W moves rewards loose ptb prb plb (gen_B K L W moves rewards loose ptb prb).
Proof.
  intros HL HW Hm. split; [|split].
  - exact (B_bisim K L W moves rewards loose ptb prb plb HL HW Hm).
  - exact (rel_start L W moves HL HW _).
  - exact (B_range K L W moves rewards loose ptb prb HL HW).
Qed.

Lemma C_bisim_full {T} (K : ops T) L W moves rewards loose ptb prb plb :
  1 <= L -> 1 <= W -> (forall i j, i < L -> j < W -> moves i j <= 3) ->
  bisim_statement K VC L W moves rewards loose ptb prb plb (gen_C K L W moves rewards loose ptb prb plb).
Proof.
  intros HL HW Hm. split; [|split].
  - exact (C_bisim K L W moves rewards loose ptb prb plb HL HW Hm).
  - exact (rel_start L W moves HL HW _).
  - exact (C_range K L W moves rewards loose ptb prb plb HL HW).
Qed.

(** * Defect D3 of the pinned tree (repaired by 7de53ea): the original case order of
      player_one_left_right_transitions on a one-column board *)
From Coq Require Import QArith.
Local Close Scope Q_scope.

Definition d3_moves (i j : nat) : nat := 1.          (* every tile "<>" *)
Definition d3_rewards (i j : nat) : Q := 0%Q.
Definition d3_loose (i j : nat) : nat := 0.
Definition d3_game := gen_A_orig qops 2 1 d3_moves d3_rewards d3_loose (1 # 10)%Q.

Lemma d3_right_leaves_row :
  (* Right from the Yellow phase of row 0 leads to row 1's landing state ... *)
  nth (idx 2 1 VA (LR 0 0)) (g_trans d3_game) [] =
    [mkT "Left"%string 0%Q (idx 2 1 VA (Land 0 0)); mkT "Right"%string 0%Q (idx 2 1 VA (Land 1 0))] /\
  (* ... and from the last row to the losing state *)
  nth (idx 2 1 VA (LR 1 0)) (g_trans d3_game) [] =
    [mkT "Left"%string 0%Q (idx 2 1 VA (Land 1 0)); mkT "Right"%string 0%Q (idx 2 1 VA Lost)] /\
  (* whereas the rules (and the repaired generator) stay on the tile *)
  rtrans qops 2 1 (board_arrows d3_moves) (board_loose d3_loose) (1 # 10)%Q 0%Q 0%Q VA (LR 0 0) =
    [("Left"%string, 0%Q, Land 0 0); ("Right"%string, 0%Q, Land 0 0)] /\
  nth (idx 2 1 VA (LR 0 0)) (g_trans (gen_A qops 2 1 d3_moves d3_rewards d3_loose (1 # 10)%Q)) [] =
    [mkT "Left"%string 0%Q (idx 2 1 VA (Land 0 0)); mkT "Right"%string 0%Q (idx 2 1 VA (Land 0 0))].
Proof. repeat split; vm_compute; reflexivity. Qed.

Lemma d3_not_bisim :
  ~ bisimulation (roborta qops 2 1 (board_arrows d3_moves) d3_rewards (board_loose d3_loose) (1 # 10)%Q 0%Q 0%Q VA)
                 (game_lts qops d3_game) (idx_rel 2 1 (board_arrows d3_moves) VA).
Proof.
  intros HB.
  assert (HR : idx_rel 2 1 (board_arrows d3_moves) VA (LR 0 0) 4).
  { split; [|reflexivity]. cbn [valid]. unfold on_board. repeat split; auto. }
  destruct (HB _ _ HR) as (_ & _ & _ & HF).
  assert (E : l_trans (game_lts qops d3_game) 4 =
              [("Left"%string, 0%Q, 6); ("Right"%string, 0%Q, 7)]) by (vm_compute; reflexivity).
  rewrite E in HF.
  assert (E2 : l_trans (roborta qops 2 1 (board_arrows d3_moves) d3_rewards (board_loose d3_loose) (1 # 10)%Q 0%Q 0%Q VA) (LR 0 0) =
               [("Left"%string, 0%Q, Land 0 0); ("Right"%string, 0%Q, Land 0 0)]) by (vm_compute; reflexivity).
  rewrite E2 in HF.
  inversion HF as [|? ? ? ? _ HF2]; subst. inversion HF2 as [|? ? ? ? Hx _]; subst.
  cbn [fst snd] in Hx. destruct Hx as (_ & _ & [_ Hidx]). vm_compute in Hidx. discriminate.
Qed.

(** non-vacuity of the bisimulation theorems: a 2x2 board with every arrow code and a loose tile
    meets the hypotheses; the related states really carry the expected transitions *)
Definition ex_moves := ll_nat [[3; 1]; [2; 0]].
Definition ex_rewards := ll_num qops [[6; 0]; [1; 2]]%Q.
Definition ex_loose := ll_nat [[0; 1]; [1; 0]].

Lemma ex_moves_ok : forall i j, i < 2 -> j < 2 -> ex_moves i j <= 3.
Proof.
  intros i j Hi Hj. destruct i as [|[|i]]; try lia; destruct j as [|[|j]]; try lia; vm_compute; lia.
Qed.

Lemma c08_example :
  let g := gen_C qops 2 2 ex_moves ex_rewards ex_loose (1 # 10)%Q (1 # 2)%Q (29 # 100)%Q in
  (* the free choice on tile (0,1) ("<>"): down, left and right, each through its Try state *)
  map (fun t => (act t, dst t)) (nth (idx 2 2 VC (Free 0 1)) (g_trans g) []) =
    [("Down"%string, idx 2 2 VC (TryDown 0 1)); ("Left"%string, idx 2 2 VC (TryLeft 0 1));
     ("Right"%string, idx 2 2 VC (TryRight 0 1))] /\
  (* moving left from column 0 wraps to column 1; the robot fails with probability 1/2 *)
  nth (idx 2 2 VC (TryLeft 1 0)) (g_trans g) [] =
    [mkT ""%string (1 # 2)%Q (idx 2 2 VC (Land 1 0)); mkT ""%string (1 # 2)%Q (idx 2 2 VC (Land 1 1))] /\
  (* moving down from the last row wins *)
  map dst (nth (idx 2 2 VC (TryDown 1 1)) (g_trans g) []) = [idx 2 2 VC (Land 1 1); idx 2 2 VC Won] /\
  nth (idx 2 2 VC (Light 1 0)) (g_rewards g) 0%Q = 1%Q.
Proof. repeat split; vm_compute; reflexivity. Qed.
