(** Reachability value iteration on exact rationals (instance Q): the Gauss-Seidel loop is monotone
    from below, stays in [0,1], never exceeds the finite-horizon game value, ends with a Bellman
    residual of at most the threshold, and terminates within |S| * 10^6 + 1 sweeps (C01, C06). *)
From Coq Require Import String List Arith Bool Lia QArith Qabs Qreduction Lqa.
From CR Require Import Model.Num Model.Outcome Model.Game Proofs.Laws Proofs.GameP.
Import ListNotations.
Local Open Scope Q_scope.

Arguments qadd : simpl never.
Arguments qmul : simpl never.
Arguments qsub : simpl never.
Arguments qdiv : simpl never.

Lemma qadd_ok a b : qadd a b == a + b. Proof. apply Qred_correct. Qed.
Lemma qmul_ok a b : qmul a b == a * b. Proof. apply Qred_correct. Qed.
Lemma qsub_ok a b : qsub a b == a - b. Proof. apply Qred_correct. Qed.

Notation trans := (@trans Q).
Notation vec := (nat -> Q).

(** * The three folds of the Bellman step *)
Definition fmax (x : vec) (l : list trans) (m : Q) : Q :=
  fold_left (fun m t => let r := x (dst t) in if qltb m r then r else m) l m.
Definition fmin (x : vec) (l : list trans) (m : Q) : Q :=
  fold_left (fun m t => let r := x (dst t) in if qltb r m then r else m) l m.
Definition wsum (x : vec) (l : list trans) (acc : Q) : Q :=
  fold_left (fun v t => qadd v (qmul (x (dst t)) (pr t))) l acc.
Definition sumw (l : list trans) : Q := fold_right (fun t s => pr t + s) 0 l.

Lemma rstep_unfold x k l :
  rstep qops x k l = match k with PR => wsum x l 0 | P1 => fmax x l 0 | P2 => fmin x l 1 end.
Proof. destruct k; reflexivity. Qed.

Lemma qltb_cases a b : (qltb a b = true /\ a < b) \/ (qltb a b = false /\ b <= a).
Proof.
  destruct (qltb a b) eqn:E; [left|right]; split; try reflexivity.
  - apply qltb_lt. exact E.
  - apply qltb_false. exact E.
Qed.

Lemma fmax_mono x y l : (forall i, x i <= y i) -> forall m m', m <= m' -> fmax x l m <= fmax y l m'.
Proof.
  intros Hxy. induction l as [|t l IH]; intros m m' Hm; cbn [fmax fold_left]; [exact Hm|].
  apply IH. cbn zeta. specialize (Hxy (dst t)).
  destruct (qltb_cases m (x (dst t))) as [[-> H1]|[-> H1]], (qltb_cases m' (y (dst t))) as [[-> H2]|[-> H2]]; lra.
Qed.
Lemma fmin_mono x y l : (forall i, x i <= y i) -> forall m m', m <= m' -> fmin x l m <= fmin y l m'.
Proof.
  intros Hxy. induction l as [|t l IH]; intros m m' Hm; cbn [fmin fold_left]; [exact Hm|].
  apply IH. cbn zeta. specialize (Hxy (dst t)).
  destruct (qltb_cases (x (dst t)) m) as [[-> H1]|[-> H1]], (qltb_cases (y (dst t)) m') as [[-> H2]|[-> H2]]; lra.
Qed.
Lemma fmax_shift x y l d : (forall i, y i <= x i + d) -> forall m m', m' <= m + d -> fmax y l m' <= fmax x l m + d.
Proof.
  intros Hxy. induction l as [|t l IH]; intros m m' Hm; cbn [fmax fold_left]; [exact Hm|].
  apply IH. cbn zeta. specialize (Hxy (dst t)).
  destruct (qltb_cases m (x (dst t))) as [[-> H1]|[-> H1]], (qltb_cases m' (y (dst t))) as [[-> H2]|[-> H2]]; lra.
Qed.
Lemma fmin_shift x y l d : (forall i, y i <= x i + d) -> forall m m', m' <= m + d -> fmin y l m' <= fmin x l m + d.
Proof.
  intros Hxy. induction l as [|t l IH]; intros m m' Hm; cbn [fmin fold_left]; [exact Hm|].
  apply IH. cbn zeta. specialize (Hxy (dst t)).
  destruct (qltb_cases (x (dst t)) m) as [[-> H1]|[-> H1]], (qltb_cases (y (dst t)) m') as [[-> H2]|[-> H2]]; lra.
Qed.
Lemma fmax_bounds x l lo hi : (forall i, lo <= x i <= hi) -> forall m, lo <= m <= hi -> lo <= fmax x l m <= hi.
Proof.
  intros Hx. induction l as [|t l IH]; intros m Hm; cbn [fmax fold_left]; [exact Hm|].
  apply IH. cbn zeta. specialize (Hx (dst t)). destruct (qltb m (x (dst t))); lra.
Qed.
Lemma fmin_bounds x l lo hi : (forall i, lo <= x i <= hi) -> forall m, lo <= m <= hi -> lo <= fmin x l m <= hi.
Proof.
  intros Hx. induction l as [|t l IH]; intros m Hm; cbn [fmin fold_left]; [exact Hm|].
  apply IH. cbn zeta. specialize (Hx (dst t)). destruct (qltb (x (dst t)) m); lra.
Qed.

Definition nonneg_w (l : list trans) : Prop := forall t, In t l -> 0 <= pr t.

Lemma sumw_nonneg l : nonneg_w l -> 0 <= sumw l.
Proof.
  induction l as [|t l IH]; intros H; cbn [sumw fold_right]; [lra|].
  assert (0 <= pr t) by (apply H; left; reflexivity).
  assert (0 <= sumw l) by (apply IH; intros u Hu; apply H; right; exact Hu). unfold sumw in *. lra.
Qed.

Lemma wsum_mono x y l : (forall i, x i <= y i) -> nonneg_w l -> forall a b, a <= b -> wsum x l a <= wsum y l b.
Proof.
  intros Hxy. induction l as [|t l IH]; intros Hp a b Hab; cbn [wsum fold_left]; [exact Hab|].
  apply IH; [intros u Hu; apply Hp; right; exact Hu|].
  pose proof (qadd_ok a (qmul (x (dst t)) (pr t))) as E1. pose proof (qadd_ok b (qmul (y (dst t)) (pr t))) as E2.
  pose proof (qmul_ok (x (dst t)) (pr t)) as E3. pose proof (qmul_ok (y (dst t)) (pr t)) as E4.
  specialize (Hxy (dst t)). assert (0 <= pr t) by (apply Hp; left; reflexivity).
  rewrite E1, E2, E3, E4. nra.
Qed.
Lemma wsum_shift x y l d : 0 <= d -> (forall i, y i <= x i + d) -> nonneg_w l ->
  forall a b, wsum y l b <= wsum x l a + (b - a) + d * sumw l.
Proof.
  intros Hd Hxy. induction l as [|t l IH]; intros Hp a b; cbn [wsum fold_left sumw fold_right]; [lra|].
  assert (Hp' : nonneg_w l) by (intros u Hu; apply Hp; right; exact Hu).
  specialize (IH Hp' (qadd a (qmul (x (dst t)) (pr t))) (qadd b (qmul (y (dst t)) (pr t)))).
  pose proof (qadd_ok a (qmul (x (dst t)) (pr t))) as E1. pose proof (qadd_ok b (qmul (y (dst t)) (pr t))) as E2.
  pose proof (qmul_ok (x (dst t)) (pr t)) as E3. pose proof (qmul_ok (y (dst t)) (pr t)) as E4.
  unfold wsum in *. fold (sumw l).
  specialize (Hxy (dst t)). assert (0 <= pr t) by (apply Hp; left; reflexivity).
  pose proof (sumw_nonneg l Hp').
  set (A := qadd a (qmul (x (dst t)) (pr t))) in *. set (B := qadd b (qmul (y (dst t)) (pr t))) in *.
  set (MX := qmul (x (dst t)) (pr t)) in *. set (MY := qmul (y (dst t)) (pr t)) in *.
  nra.
Qed.
Lemma wsum_bounds x l : (forall i, 0 <= x i <= 1) -> nonneg_w l -> forall a, a <= wsum x l a <= a + sumw l.
Proof.
  intros Hx. induction l as [|t l IH]; intros Hp a; cbn [wsum fold_left sumw fold_right]; [lra|].
  assert (Hp' : nonneg_w l) by (intros u Hu; apply Hp; right; exact Hu).
  specialize (IH Hp' (qadd a (qmul (x (dst t)) (pr t)))).
  pose proof (qadd_ok a (qmul (x (dst t)) (pr t))) as E1. pose proof (qmul_ok (x (dst t)) (pr t)) as E3.
  unfold wsum in *. fold (sumw l). specialize (Hx (dst t)). assert (0 <= pr t) by (apply Hp; left; reflexivity).
  set (A := qadd a (qmul (x (dst t)) (pr t))) in *. set (MX := qmul (x (dst t)) (pr t)) in *.
  nra.
Qed.

(** * The Bellman operator of a fixed game structure *)
Section Game.
Variable kd : nat -> kind.              (* owner of each state *)
Variable tr : nat -> list trans.        (* its transitions *)
Variable finb : nat -> bool.            (* final states *)
Hypothesis Hw : forall i, kd i = PR -> nonneg_w (tr i).
Hypothesis Hs : forall i, kd i = PR -> sumw (tr i) <= 1.

Definition Phi (x : vec) (i : nat) : Q := rstep qops x (kd i) (tr i).
Definition PhiStar (x : vec) (i : nat) : Q := if finb i then 1 else Phi x i.
Definition x0 : vec := fun i => if finb i then 1 else 0.

Lemma Phi_ext x y i : (forall j, x j = y j) -> Phi x i = Phi y i.
Proof.
  intros H. unfold Phi. rewrite !rstep_unfold. destruct (kd i).
  - unfold fmax. generalize (0:Q). induction (tr i) as [|t l IH]; intros m; cbn [fold_left]; [reflexivity|]. rewrite H. apply IH.
  - unfold fmin. generalize (1:Q). induction (tr i) as [|t l IH]; intros m; cbn [fold_left]; [reflexivity|]. rewrite H. apply IH.
  - unfold wsum. generalize (0:Q). induction (tr i) as [|t l IH]; intros m; cbn [fold_left]; [reflexivity|]. rewrite H. apply IH.
Qed.

Lemma Phi_mono x y i : (forall j, x j <= y j) -> Phi x i <= Phi y i.
Proof.
  intros H. unfold Phi. rewrite !rstep_unfold. destruct (kd i) eqn:E.
  - apply fmax_mono; [exact H|lra].
  - apply fmin_mono; [exact H|lra].
  - apply wsum_mono; [exact H|apply Hw; exact E|lra].
Qed.
Lemma Phi_bounds x i : (forall j, 0 <= x j <= 1) -> 0 <= Phi x i <= 1.
Proof.
  intros H. unfold Phi. rewrite rstep_unfold. destruct (kd i) eqn:E.
  - apply fmax_bounds; [exact H|lra].
  - apply fmin_bounds; [exact H|lra].
  - pose proof (wsum_bounds x (tr i) H (Hw i E) 0). pose proof (Hs i E). lra.
Qed.
(* non-expansive from above: raising every value by at most d raises the step by at most d *)
Lemma Phi_shift x y i d : 0 <= d -> (forall j, y j <= x j + d) -> Phi y i <= Phi x i + d.
Proof.
  intros Hd H. unfold Phi. rewrite !rstep_unfold. destruct (kd i) eqn:E.
  - apply fmax_shift; [exact H|lra].
  - apply fmin_shift; [exact H|lra].
  - pose proof (wsum_shift x y (tr i) d Hd H (Hw i E) 0 0). pose proof (Hs i E). nra.
Qed.

Lemma PhiStar_mono x y i : (forall j, x j <= y j) -> PhiStar x i <= PhiStar y i.
Proof. intros H. unfold PhiStar. destruct (finb i); [lra|apply Phi_mono; exact H]. Qed.
Lemma PhiStar_bounds x i : (forall j, 0 <= x j <= 1) -> 0 <= PhiStar x i <= 1.
Proof. intros H. unfold PhiStar. destruct (finb i); [lra|apply Phi_bounds; exact H]. Qed.

(* finite-horizon values: V m = value of the game in which only the first m moves count *)
Fixpoint V (m : nat) : vec := match m with O => x0 | S m => PhiStar (V m) end.

Lemma x0_bounds i : 0 <= x0 i <= 1.
Proof. unfold x0. destruct (finb i); lra. Qed.
Lemma V_bounds m : forall i, 0 <= V m i <= 1.
Proof. induction m as [|m IH]; intros i; cbn [V]; [apply x0_bounds|apply PhiStar_bounds; exact IH]. Qed.
Lemma V_step_mono m : forall i, V m i <= V (S m) i.
Proof.
  induction m as [|m IH]; intros i.
  - cbn [V]. unfold PhiStar, x0. destruct (finb i) eqn:E; [lra|].
    apply (Phi_bounds x0 i x0_bounds).
  - cbn [V] in *. apply PhiStar_mono. exact IH.
Qed.
Lemma V_mono m m' : (m <= m')%nat -> forall i, V m i <= V m' i.
Proof.
  induction 1 as [|m' Hle IH]; intros i; [lra|].
  eapply Qle_trans; [apply IH|apply V_step_mono].
Qed.

(** * The Gauss-Seidel sweep on vectors *)
Definition vupd (x : vec) (i : nat) (v : Q) : vec := fun j => if Nat.eqb j i then v else x j.

Fixpoint vsweep (S : list nat) (x : vec) (md : Q) : vec * Q :=
  match S with
  | [] => (x, md)
  | i :: S' =>
    let v := Phi x i in
    let d := qabs (qsub v (x i)) in
    vsweep S' (vupd x i v) (if qltb md d then d else md)
  end.

(* invariant: values in [0,1], finals fixed at 1, every updatable state is below its Bellman step *)
Definition Inv (S : list nat) (x : vec) : Prop :=
  (forall j, 0 <= x j <= 1) /\ (forall j, In j S -> x j <= Phi x j).

Lemma vupd_ge x i : x i <= Phi x i -> forall j, x j <= vupd x i (Phi x i) j.
Proof. intros H j. unfold vupd. destruct (Nat.eqb_spec j i) as [->|_]; [exact H|lra]. Qed.

Lemma Inv_step S x i : In i S -> Inv S x -> Inv S (vupd x i (Phi x i)).
Proof.
  intros Hi [Hb Hsub]. pose proof (vupd_ge x i (Hsub i Hi)) as Hge. split.
  - intros j. unfold vupd. destruct (Nat.eqb_spec j i) as [->|_]; [apply Phi_bounds; exact Hb|apply Hb].
  - intros j Hj. unfold vupd at 1. destruct (Nat.eqb_spec j i) as [->|_].
    + apply Phi_mono. exact Hge.
    + eapply Qle_trans; [apply Hsub; exact Hj|]. apply Phi_mono. exact Hge.
Qed.

Lemma qabs_nonneg_diff v a : a <= v -> qabs (qsub v a) == v - a.
Proof. intros H. unfold qabs. rewrite qsub_ok. apply Qabs_pos. lra. Qed.

(* what one sweep guarantees *)
Lemma vsweep_spec : forall S U x md,
  incl S U -> NoDup S -> Inv U x -> 0 <= md ->
  let r := vsweep S x md in
  Inv U (fst r) /\ md <= snd r /\
  (forall j, x j <= fst r j) /\
  (forall j, fst r j <= x j + snd r) /\
  (forall j, ~ In j S -> fst r j = x j) /\
  (forall s, In s S -> Phi (fst r) s <= fst r s + snd r).
Proof.
  induction S as [|i S IH]; intros U x md Hincl Hnd HI Hmd; cbn [vsweep].
  - cbn [fst snd]. split; [exact HI|]. split; [lra|]. split; [intros j; lra|].
    split; [intros j; lra|]. split; [intros j _; reflexivity|]. intros s [].
  - cbn zeta. inversion Hnd as [|? ? Hni Hnd']; subst.
    assert (HiU : In i U) by (apply Hincl; left; reflexivity).
    assert (Hsub : x i <= Phi x i) by (apply HI; exact HiU).
    set (v := Phi x i). set (d := qabs (qsub v (x i))).
    assert (Hd : d == v - x i) by (apply qabs_nonneg_diff; exact Hsub).
    set (md1 := if qltb md d then d else md).
    assert (Hmd1 : md <= md1 /\ d <= md1).
    { subst md1. destruct (qltb_cases md d) as [[-> H]|[-> H]]; lra. }
    specialize (IH U (vupd x i v) md1 (fun j Hj => Hincl j (or_intror Hj)) Hnd' (Inv_step U x i HiU HI)).
    assert (H0 : 0 <= md1) by lra. specialize (IH H0). cbn zeta in IH.
    destruct IH as (I1 & I2 & I3 & I4 & I5 & I6).
    set (r := vsweep S (vupd x i v) md1) in *.
    assert (Hri : fst r i = v).
    { rewrite I5 by exact Hni. unfold vupd. rewrite Nat.eqb_refl. reflexivity. }
    split; [exact I1|]. split; [lra|].
    split; [intros j; eapply Qle_trans; [apply (vupd_ge x i Hsub j)|apply I3]|].
    assert (Hall : forall j, fst r j <= x j + snd r).
    { intros j. destruct (Nat.eq_dec j i) as [->|Hne]; [rewrite Hri; lra|].
      specialize (I4 j). unfold vupd in I4. destruct (Nat.eqb_spec j i); [contradiction|]. exact I4. }
    split; [exact Hall|]. split.
    + intros j Hj. rewrite I5 by (intros H; apply Hj; right; exact H).
      unfold vupd. destruct (Nat.eqb_spec j i) as [->|_]; [exfalso; apply Hj; left; reflexivity|reflexivity].
    + intros s [<-|Hin]; [|apply I6; exact Hin].
      rewrite Hri. fold v. apply (Phi_shift x (fst r) i (snd r)); [lra|exact Hall].
Qed.

(* the sum over a duplicate-free list grows by at least the largest single change *)
Definition sumL (L : list nat) (x : vec) : Q := fold_right (fun i s => x i + s) 0 L.

Lemma sumL_upd L x i v : NoDup L -> In i L -> sumL L (vupd x i v) == sumL L x + (v - x i).
Proof.
  induction L as [|j L IH]; intros Hnd Hi; [destruct Hi|]. inversion Hnd as [|? ? Hnj Hnd']; subst.
  cbn [sumL fold_right]. fold (sumL L (vupd x i v)). fold (sumL L x).
  destruct Hi as [->|Hi].
  - assert (Hsame : sumL L (vupd x i v) == sumL L x).
    { clear IH Hnd Hnd'. induction L as [|k L IHL]; cbn [sumL fold_right]; [lra|].
      fold (sumL L (vupd x i v)). fold (sumL L x).
      assert (Hk : k <> i) by (intros ->; apply Hnj; left; reflexivity).
      unfold vupd at 1. destruct (Nat.eqb_spec k i); [contradiction|].
      rewrite IHL by (intros H; apply Hnj; right; exact H). lra. }
    unfold vupd at 1. rewrite Nat.eqb_refl, Hsame. lra.
  - assert (Hj : j <> i) by (intros ->; contradiction).
    unfold vupd at 1. destruct (Nat.eqb_spec j i); [contradiction|]. rewrite IH by assumption. lra.
Qed.
Lemma sumL_bound L x : (forall j, 0 <= x j <= 1) -> 0 <= sumL L x <= inject_Z (Z.of_nat (length L)).
Proof.
  intros H. induction L as [|i L IH]; cbn [sumL fold_right length]; [split; apply Qle_refl|].
  fold (sumL L x). rewrite Nat2Z.inj_succ. unfold Z.succ. rewrite inject_Z_plus. specialize (H i).
  change (inject_Z 1) with 1. lra.
Qed.

Lemma vsweep_sum : forall S U x md,
  incl S U -> NoDup U -> Inv U x -> 0 <= md ->
  let r := vsweep S x md in sumL U x + (snd r - md) <= sumL U (fst r).
Proof.
  induction S as [|i S IH]; intros U x md Hincl HndU HI Hmd; cbn [vsweep]; [cbn [fst snd]; lra|].
  cbn zeta.
  assert (HiU : In i U) by (apply Hincl; left; reflexivity).
  assert (Hsub : x i <= Phi x i) by (apply HI; exact HiU).
  set (v := Phi x i) in *. set (d := qabs (qsub v (x i))).
  assert (Hd : d == v - x i) by (apply qabs_nonneg_diff; exact Hsub).
  set (md1 := if qltb md d then d else md).
  assert (Hmd1 : md <= md1 /\ md1 <= md + d).
  { subst md1. destruct (qltb_cases md d) as [[-> H]|[-> H]]; lra. }
  assert (H0 : 0 <= md1) by lra.
  specialize (IH U (vupd x i v) md1 (fun j Hj => Hincl j (or_intror Hj)) HndU (Inv_step U x i HiU HI) H0).
  cbn zeta in IH. rewrite (sumL_upd U x i v HndU HiU) in IH. lra.
Qed.

(** * The loop *)
Fixpoint vvi (fuel : nat) (S : list nat) (x : vec) (i : nat) : option (vec * nat) :=
  match fuel with
  | O => None
  | Datatypes.S f =>
    let r := vsweep S x 0 in
    if qltb q_thr (snd r) then vvi f S (fst r) (i + 1)%nat else Some (fst r, (i + 1)%nat)
  end.

Theorem vvi_result : forall fuel S x i y k,
  NoDup S -> Inv S x -> vvi fuel S x i = Some (y, k) ->
  Inv S y /\ (forall j, x j <= y j) /\ (forall j, ~ In j S -> y j = x j) /\
  (forall s, In s S -> 0 <= Phi y s - y s <= q_thr) /\ (i < k)%nat.
Proof.
  induction fuel as [|fuel IH]; intros S x i y k Hnd HI H; cbn [vvi] in H; [discriminate|].
  pose proof (vsweep_spec S S x 0 (incl_refl S) Hnd HI (Qle_refl 0)) as Hsp. cbn zeta in Hsp.
  destruct Hsp as (I1 & I2 & I3 & I4 & I5 & I6).
  destruct (qltb_cases q_thr (snd (vsweep S x 0))) as [[E _]|[E Hle]]; rewrite E in H.
  - destruct (IH _ _ _ _ _ Hnd I1 H) as (J1 & J2 & J3 & J4 & J5). repeat split; try apply J1; try (apply J4; assumption).
    + intros j. eapply Qle_trans; [apply I3|apply J2].
    + intros j Hj. rewrite J3 by exact Hj. apply I5. exact Hj.
    + lia.
  - inversion H; subst. repeat split; try apply I1.
    + exact I3.
    + exact I5.
    + pose proof (proj2 I1 s H0). lra.
    + specialize (I6 s H0). lra.
    + lia.
Qed.

(* every continuing sweep raises the sum over S by more than the threshold, and the sum is at most |S| *)
Theorem vvi_terminates : forall fuel S x i,
  NoDup S -> Inv S x ->
  inject_Z (Z.of_nat (length S)) - sumL S x < inject_Z (Z.of_nat fuel) * q_thr ->
  vvi fuel S x i <> None.
Proof.
  induction fuel as [|fuel IH]; intros S x i Hnd HI Hf.
  - exfalso. pose proof (sumL_bound S x (proj1 HI)). change (inject_Z (Z.of_nat 0)) with 0 in Hf. lra.
  - cbn [vvi]. pose proof (vsweep_spec S S x 0 (incl_refl S) Hnd HI (Qle_refl 0)) as Hsp. cbn zeta in Hsp.
    destruct Hsp as (I1 & _).
    pose proof (vsweep_sum S S x 0 (incl_refl S) Hnd HI (Qle_refl 0)) as Hsum. cbn zeta in Hsum.
    destruct (qltb_cases q_thr (snd (vsweep S x 0))) as [[E Hlt]|[E _]]; rewrite E; [|discriminate].
    apply IH; [exact Hnd|exact I1|].
    rewrite Nat2Z.inj_succ in Hf. unfold Z.succ in Hf. rewrite inject_Z_plus in Hf.
    change (inject_Z 1) with 1 in Hf. lra.
Qed.

(* never above the finite-horizon value: after t single-state updates the vector is below V t *)
Lemma vsweep_below_V : forall S x md t,
  (forall i, In i S -> finb i = false) -> (forall j, x j <= V t j) ->
  forall j, fst (vsweep S x md) j <= V (t + length S) j.
Proof.
  induction S as [|i S IH]; intros x md t Hnf Hx j; cbn [vsweep length].
  - rewrite Nat.add_0_r. apply Hx.
  - cbn zeta. replace (t + Datatypes.S (length S))%nat with (Datatypes.S t + length S)%nat by lia.
    apply IH; [intros k Hk; apply Hnf; right; exact Hk|].
    intros k. unfold vupd. destruct (Nat.eqb_spec k i) as [->|_].
    + cbn [V]. unfold PhiStar. rewrite (Hnf i (or_introl eq_refl)). apply Phi_mono. exact Hx.
    + eapply Qle_trans; [apply Hx|apply V_step_mono].
Qed.

Theorem vvi_below_V : forall fuel S x i y k t,
  (forall s, In s S -> finb s = false) -> (forall j, x j <= V t j) ->
  vvi fuel S x i = Some (y, k) ->
  forall j, y j <= V (t + (k - i) * length S) j.
Proof.
  induction fuel as [|fuel IH]; intros S x i y k t Hnf Hx H; cbn [vvi] in H; [discriminate|].
  pose proof (vsweep_below_V S x 0 t Hnf Hx) as Hb.
  destruct (qltb q_thr (snd (vsweep S x 0))).
  - pose proof H as H'. pose proof (IH _ _ _ _ _ (t + length S)%nat Hnf Hb H) as H2. intros j.
    eapply Qle_trans; [apply H2|]. apply V_mono.
    assert (i + 1 <= k)%nat.
    { clear -H'. revert H'. generalize (fst (vsweep S x 0)). generalize (i + 1)%nat. induction fuel as [|f IHf]; intros a z Hz; cbn [vvi] in Hz; [discriminate|].
      destruct (qltb q_thr _); [apply IHf in Hz; lia|inversion Hz; lia]. }
    nia.
  - inversion H; subst. intros j. replace (i + 1 - i)%nat with 1%nat by lia. rewrite Nat.mul_1_l. apply Hb.
Qed.

End Game.
