(** C01, end to end: the reported probabilities are within threshold * T of any fixed point of the
    Bellman operator above them (in particular of the true value), whenever T certifies a bounded
    expected absorption time. *)
From Coq Require Import String List Arith Bool Lia QArith Qabs Qreduction Lqa.
From CR Require Import Model.Num Model.Outcome Model.Graph Model.Game Proofs.GraphP Proofs.PipelineP
     Proofs.ReachQ Proofs.ReachQ2 Proofs.ReachQ3 Proofs.C04Q Proofs.ErrBound.
Import ListNotations.
Local Open Scope Q_scope.

Theorem reach_error_bound (g : gameQ) :
  wf_game qops g ->
  (forall i, nth i (g_players g) PR = PR ->
     nonneg_w (nth i (g_trans g) []) /\ sumw (nth i (g_trans g) []) <= 1) ->
  forall fuel prune sl1 rs it,
  solve_reach_fuel qops fuel g prune = Ok (sl1, rs, it) ->
  let p := reach_vec qops sl1 in
  exists srf, reverse_dfs (tlg g) (g_finals g) = Ok srf /\
    forall (y T : vec) (M : Q),
      (forall s, In s srf -> y s = gPhi g y s) ->
      (forall s, ~ In s srf -> y s = p s) ->
      (forall s, y s - p s <= 1) ->
      (forall s, 1 + B (gkd g) (gtr g) (fun s => mem_nat s srf) T s <= T s) ->
      (forall s, 0 <= T s <= M) ->
      forall s, y s - p s <= q_thr * T s.
Proof.
  intros Hwf Hnum fuel prune sl1 rs it H p.
  destruct (reach_numeric g Hwf Hnum fuel prune sl1 rs it H) as (srf & E & _ & _ & _ & Hres).
  exists srf. split; [exact E|]. intros y T M Hy Hout He1 HT HTb.
  apply (error_bound (gkd g) (gtr g) (fun s => mem_nat s srf)) with (M := M).
  - intros i Hi. apply Hnum. exact Hi.
  - unfold q_thr. lra.
  - intros s Hs. apply mem_nat_In in Hs. apply Hy. exact Hs.
  - intros s Hs. apply mem_nat_In in Hs. specialize (Hres s Hs). unfold gPhi in Hres. fold p in Hres. lra.
  - intros s Hs. apply Hout. intros Hin. apply mem_nat_In in Hin. congruence.
  - exact He1.
  - exact HT.
  - exact HTb.
Qed.

(* non-vacuity: on the missed-tie witness (0.9 self-loop) the certificate T = (12, 1, 11) with M = 12 and the
   true value y = (1, 1, 1) meet every hypothesis, so the reported value of state 2 is within 11 thresholds of 1 *)
Definition k4_T : vec := fun i => match i with 0%nat => 12 | 1%nat => 1 | 2%nat => 11 | _ => 1 end.
Definition k4_y : vec := fun i => match i with 0%nat => 1 | 1%nat => 1 | 2%nat => 1 | _ => 0 end.

Lemma k4_num : forall i, nth i (g_players k4_game) PR = PR ->
  nonneg_w (nth i (g_trans k4_game) []) /\ sumw (nth i (g_trans k4_game) []) <= 1.
Proof.
  intros i _. destruct i as [|[|[|i]]]; cbn [nth g_trans k4_game].
  - split; [intros t [<-|[<-|[]]]; cbn; lra|cbn; lra].
  - split; [intros t [<-|[]]; cbn; lra|cbn; lra].
  - split; [intros t [<-|[<-|[]]]; cbn; lra|cbn; lra].
  - destruct i; cbn; split; try (intros t []); lra.
Qed.

Lemma k4_wf : wf_game qops k4_game.
Proof.
  unfold wf_game, nstates. cbn [k4_game g_trans g_rewards g_players g_finals length].
  split; [reflexivity|]. split; [reflexivity|]. split.
  - intros r Hr. cbn in Hr. destruct Hr as [<-|[<-|[<-|[]]]]; reflexivity.
  - split; [discriminate|]. split.
    + intros f [<-|[]]. lia.
    + intros tr Htr. cbn in Htr.
      destruct Htr as [<-|[<-|[<-|[]]]]; (split; [discriminate|]); intros t Ht; cbn in Ht.
      * destruct Ht as [<-|[<-|[]]]; cbn; lia.
      * destruct Ht as [<-|[]]; cbn; lia.
      * destruct Ht as [<-|[<-|[]]]; cbn; lia.
Qed.

Lemma k4_certificate :
  (forall s, 1 + B (gkd k4_game) (gtr k4_game) (fun s => mem_nat s [0%nat; 2%nat]) k4_T s <= k4_T s) /\
  (forall s, 0 <= k4_T s <= 12).
Proof.
  split; intros s; destruct s as [|[|[|s]]]; try (cbn; lra); vm_compute; intros H; discriminate H.
Qed.
