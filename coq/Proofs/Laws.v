(** Order laws on the number operations, and the scans as arg-max / arg-min (C04/C05).
    The laws are proved for the exact-rational instance; on binary64 they hold for non-NaN values. *)
From Coq Require Import String List Bool Lia QArith Qabs Qreduction.
From CR Require Import Model.Num Model.Game.
Import ListNotations.

Section Scan.
Context {T : Type}.
Variable K : ops T.

Record lawful_order : Prop := {
  lo_irrefl : forall x, ltb K x x = false;
  lo_trans : forall x y z, ltb K x y = true -> ltb K y z = true -> ltb K x z = true;
  lo_refl : forall x, eqb K x x = true;
  (* eqb is a congruence for both comparisons *)
  lo_cong : forall x y, eqb K x y = true -> forall z,
      eqb K x z = eqb K y z /\ eqb K z x = eqb K z y /\ ltb K x z = ltb K y z /\ ltb K z x = ltb K z y;
  lo_total : forall x y, ltb K x y = true \/ eqb K x y = true \/ ltb K y x = true
}.
Hypothesis L : lawful_order.

Lemma lo_sym x y : eqb K x y = true -> eqb K y x = true.
Proof. intros H. destruct (lo_cong L x y H x) as (H1 & _). rewrite <- H1. apply lo_refl, L. Qed.
Lemma lo_eq_not_lt x y : eqb K x y = true -> ltb K x y = false.
Proof. intros H. destruct (lo_cong L x y H y) as (_ & _ & H3 & _). rewrite H3. apply lo_irrefl, L. Qed.

(* running maximum / minimum, exactly as the scans compute them *)
Fixpoint vmax (m : T) (l : list (string * T)) : T :=
  match l with [] => m | av :: l => vmax (if ltb K m (snd av) then snd av else m) l end.
Fixpoint vmin (m : T) (l : list (string * T)) : T :=
  match l with [] => m | av :: l => vmin (if ltb K (snd av) m then snd av else m) l end.

Lemma vmax_ge l : forall x, ltb K (vmax x l) x = false.
Proof.
  induction l as [|[a v] l IH]; intros x; cbn [vmax snd]; [apply lo_irrefl, L|].
  destruct (ltb K x v) eqn:E; [|apply IH].
  destruct (ltb K (vmax v l) x) eqn:E2; [|reflexivity].
  pose proof (lo_trans L _ _ _ E2 E) as H. rewrite IH in H. discriminate.
Qed.
Lemma vmin_le l : forall x, ltb K x (vmin x l) = false.
Proof.
  induction l as [|[a v] l IH]; intros x; cbn [vmin snd]; [apply lo_irrefl, L|].
  destruct (ltb K v x) eqn:E; [|apply IH].
  destruct (ltb K x (vmin v l)) eqn:E2; [|reflexivity].
  pose proof (lo_trans L _ _ _ E E2) as H. rewrite IH in H. discriminate.
Qed.

Definition smax_step (st : T * list string) (av : string * T) : T * list string :=
  let m := fst st in let v := snd av in
  if ltb K m v then (v, [fst av]) else if eqb K v m then (m, snd st ++ [fst av]) else st.
Definition smin_step (st : T * list string) (av : string * T) : T * list string :=
  let m := fst st in let v := snd av in
  if ltb K v m then (v, [fst av]) else if eqb K v m then (m, snd st ++ [fst av]) else st.

Lemma scan_max_gen l : forall m best,
  fold_left smax_step l (m, best) =
  (vmax m l, (if eqb K (vmax m l) m then best else []) ++
             map fst (filter (fun av => eqb K (snd av) (vmax m l)) l)).
Proof.
  induction l as [|[a v] l IH]; intros m best.
  - cbn. rewrite (lo_refl L), app_nil_r. reflexivity.
  - cbn [fold_left vmax snd]. unfold smax_step at 2. cbn [fst snd].
    destruct (ltb K m v) eqn:Hlt.
    + rewrite IH. f_equal. cbn [filter map fst snd].
      destruct (eqb K (vmax v l) m) eqn:E1.
      { destruct (lo_cong L _ _ E1 v) as (_ & _ & H3 & _). pose proof (vmax_ge l v) as H.
        rewrite H3, Hlt in H. discriminate. }
      destruct (eqb K (vmax v l) v) eqn:E2; destruct (eqb K v (vmax v l)) eqn:E3; cbn; try reflexivity.
      * apply lo_sym in E2. congruence.
      * apply lo_sym in E3. congruence.
    + destruct (eqb K v m) eqn:Hv.
      * rewrite IH. cbn [fst snd]. f_equal. cbn [filter snd].
        destruct (lo_cong L _ _ Hv (vmax m l)) as (Hc1 & Hc2 & _). rewrite Hc1.
        destruct (eqb K (vmax m l) m) eqn:E1.
        -- apply lo_sym in E1. rewrite E1. cbn. rewrite <- app_assoc. reflexivity.
        -- destruct (eqb K m (vmax m l)) eqn:E2; [apply lo_sym in E2; congruence|]. reflexivity.
      * rewrite IH. f_equal. cbn [filter snd].
        destruct (eqb K v (vmax m l)) eqn:E2; [|reflexivity].
        exfalso. destruct (lo_total L m v) as [H|[H|H]].
        -- congruence.
        -- apply lo_sym in H. congruence.
        -- pose proof (vmax_ge l m) as H2. destruct (lo_cong L _ _ E2 m) as (_ & _ & H3 & _).
           rewrite <- H3, H in H2. discriminate.
Qed.

Lemma scan_min_gen l : forall m best,
  fold_left smin_step l (m, best) =
  (vmin m l, (if eqb K (vmin m l) m then best else []) ++
             map fst (filter (fun av => eqb K (snd av) (vmin m l)) l)).
Proof.
  induction l as [|[a v] l IH]; intros m best.
  - cbn. rewrite (lo_refl L), app_nil_r. reflexivity.
  - cbn [fold_left vmin snd]. unfold smin_step at 2. cbn [fst snd].
    destruct (ltb K v m) eqn:Hlt.
    + rewrite IH. f_equal. cbn [filter map fst snd].
      destruct (eqb K (vmin v l) m) eqn:E1.
      { destruct (lo_cong L _ _ E1 v) as (_ & _ & _ & H4). pose proof (vmin_le l v) as H.
        rewrite H4, Hlt in H. discriminate. }
      destruct (eqb K (vmin v l) v) eqn:E2; destruct (eqb K v (vmin v l)) eqn:E3; cbn; try reflexivity.
      * apply lo_sym in E2. congruence.
      * apply lo_sym in E3. congruence.
    + destruct (eqb K v m) eqn:Hv.
      * rewrite IH. cbn [fst snd]. f_equal. cbn [filter snd].
        destruct (lo_cong L _ _ Hv (vmin m l)) as (Hc1 & Hc2 & _). rewrite Hc1.
        destruct (eqb K (vmin m l) m) eqn:E1.
        -- apply lo_sym in E1. rewrite E1. cbn. rewrite <- app_assoc. reflexivity.
        -- destruct (eqb K m (vmin m l)) eqn:E2; [apply lo_sym in E2; congruence|]. reflexivity.
      * rewrite IH. f_equal. cbn [filter snd].
        destruct (eqb K v (vmin m l)) eqn:E2; [|reflexivity].
        exfalso. destruct (lo_total L v m) as [H|[H|H]].
        -- congruence.
        -- congruence.
        -- pose proof (vmin_le l m) as H2. destruct (lo_cong L _ _ E2 m) as (_ & _ & _ & H4).
           rewrite <- H4, H in H2. discriminate.
Qed.

(* The Player 1 scan lists, in transition order, exactly the actions whose value equals the
   running maximum (started from m0); the Player 2 scan the running minimum. *)
Theorem scan_max_is_argmax m0 l :
  scan_max K m0 l = (vmax m0 l, map fst (filter (fun av => eqb K (snd av) (vmax m0 l)) l)).
Proof.
  unfold scan_max. change (fold_left _ l (m0, [])) with (fold_left smax_step l (m0, [])).
  rewrite scan_max_gen. destruct (eqb K _ _); reflexivity.
Qed.
Theorem scan_min_is_argmin m0 l :
  scan_min K m0 l = (vmin m0 l, map fst (filter (fun av => eqb K (snd av) (vmin m0 l)) l)).
Proof.
  unfold scan_min. change (fold_left _ l (m0, [])) with (fold_left smin_step l (m0, [])).
  rewrite scan_min_gen. destruct (eqb K _ _); reflexivity.
Qed.

(* vmax is an upper bound of m0 and of every element, and is attained *)
Lemma vmax_upper m0 l av : In av l -> ltb K (vmax m0 l) (snd av) = false.
Proof.
  revert m0. induction l as [|[a v] l IH]; intros m0 Hin; [destruct Hin|]. destruct Hin as [<-|Hin]; cbn [vmax snd].
  - destruct (ltb K m0 v) eqn:E; [apply vmax_ge|].
    destruct (ltb K (vmax m0 l) v) eqn:E2; [|reflexivity].
    pose proof (vmax_ge l m0) as H. destruct (lo_total L m0 v) as [H1|[H1|H1]]; [congruence| |].
    + destruct (lo_cong L _ _ H1 (vmax m0 l)) as (_ & _ & _ & H4). congruence.
    + pose proof (lo_trans L _ _ _ E2 H1). congruence.
  - apply IH. exact Hin.
Qed.
Lemma vmax_attained m0 l : vmax m0 l = m0 \/ exists av, In av l /\ vmax m0 l = snd av.
Proof.
  revert m0. induction l as [|[a v] l IH]; intros m0; cbn [vmax snd]; [left; reflexivity|].
  destruct (ltb K m0 v).
  - destruct (IH v) as [H|[av [H1 H2]]]; right.
    + exists (a, v). split; [left; reflexivity|exact H].
    + exists av. split; [right; exact H1|exact H2].
  - destruct (IH m0) as [H|[av [H1 H2]]]; [left; exact H|right].
    exists av. split; [right; exact H1|exact H2].
Qed.
Lemma vmin_lower m0 l av : In av l -> ltb K (snd av) (vmin m0 l) = false.
Proof.
  revert m0. induction l as [|[a v] l IH]; intros m0 Hin; [destruct Hin|]. destruct Hin as [<-|Hin]; cbn [vmin snd].
  - destruct (ltb K v m0) eqn:E; [apply vmin_le|].
    destruct (ltb K v (vmin m0 l)) eqn:E2; [|reflexivity].
    pose proof (vmin_le l m0) as H. destruct (lo_total L v m0) as [H1|[H1|H1]]; [congruence| |].
    + destruct (lo_cong L _ _ H1 (vmin m0 l)) as (_ & _ & H3 & _). congruence.
    + pose proof (lo_trans L _ _ _ H1 E2). congruence.
  - apply IH. exact Hin.
Qed.
Lemma vmin_attained m0 l : vmin m0 l = m0 \/ exists av, In av l /\ vmin m0 l = snd av.
Proof.
  revert m0. induction l as [|[a v] l IH]; intros m0; cbn [vmin snd]; [left; reflexivity|].
  destruct (ltb K v m0).
  - destruct (IH v) as [H|[av [H1 H2]]]; right.
    + exists (a, v). split; [left; reflexivity|exact H].
    + exists av. split; [right; exact H1|exact H2].
  - destruct (IH m0) as [H|[av [H1 H2]]]; [left; exact H|right].
    exists av. split; [right; exact H1|exact H2].
Qed.
End Scan.

(** * The rational instance is lawful *)
Lemma qltb_lt a b : qltb a b = true <-> (a < b)%Q.
Proof.
  unfold qltb. rewrite negb_true_iff. split.
  - intros H. apply Qnot_le_lt. intros Hle. apply Qle_bool_iff in Hle. congruence.
  - intros H. destruct (Qle_bool b a) eqn:E; [|reflexivity]. apply Qle_bool_iff in E.
    exfalso. apply (Qlt_not_le _ _ H E).
Qed.
Lemma qltb_false a b : qltb a b = false <-> (b <= a)%Q.
Proof.
  unfold qltb. rewrite negb_false_iff. apply Qle_bool_iff.
Qed.
Lemma qeqb_eq a b : qeqb a b = true <-> (a == b)%Q.
Proof. apply Qeq_bool_iff. Qed.
Lemma qleb_le a b : qleb a b = true <-> (a <= b)%Q.
Proof. apply Qle_bool_iff. Qed.

Lemma bool_iff_eq (a b : bool) : (a = true <-> b = true) -> a = b.
Proof. destruct a, b; intros [H1 H2]; try reflexivity; [symmetry; apply H1; reflexivity|apply H2; reflexivity]. Qed.

Lemma qops_lawful : lawful_order qops.
Proof.
  split; cbn [ltb eqb qops].
  - intros x. apply qltb_false. apply Qle_refl.
  - intros x y z H1 H2. apply qltb_lt in H1, H2. apply qltb_lt. eapply Qlt_trans; eauto.
  - intros x. apply qeqb_eq. reflexivity.
  - intros x y H z. apply qeqb_eq in H. repeat split; apply bool_iff_eq.
    + rewrite !qeqb_eq. rewrite H. reflexivity.
    + rewrite !qeqb_eq. rewrite H. reflexivity.
    + rewrite !qltb_lt. rewrite H. reflexivity.
    + rewrite !qltb_lt. rewrite H. reflexivity.
  - intros x y. destruct (Q_dec x y) as [[H|H]|H].
    + left. apply qltb_lt. exact H.
    + right. right. apply qltb_lt. exact H.
    + right. left. apply qeqb_eq. exact H.
Qed.
