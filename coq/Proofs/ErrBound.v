(** The a-priori error bound of residual-stopped value iteration (exact rationals).
    If x has Bellman residual at most eps on S, y is a fixed point on S that agrees with x outside S
    and is at most 1 above x, and T certifies a bounded expected absorption time
        T s >= 1 + (largest / probability-weighted successor value of T)   on S,   1 <= T <= M,
    then   y s - x s <= eps * T s   for every state s.
    This is the bound the 'bounded-absorption-time' guard of the checks relies on; it turns "within the
    solver's tolerance of the true value" into a theorem under an explicit, checkable condition. *)
From Coq Require Import String List Arith Bool Lia QArith Qabs Qreduction Lqa.
From CR Require Import Model.Num Model.Outcome Model.Game Proofs.Laws Proofs.ReachQ Proofs.ReachQ3 Proofs.EquivQ.
Import ListNotations.
Local Open Scope Q_scope.

Definition qmx (a b : Q) : Q := if Qle_bool a b then b else a.
Lemma qmx_cases a b : (qmx a b = b /\ a <= b) \/ (qmx a b = a /\ b <= a).
Proof.
  unfold qmx. destruct (Qle_bool a b) eqn:E; [left|right]; split; try reflexivity.
  - apply Qle_bool_iff. exact E.
  - apply Qlt_le_weak. apply Qnot_le_lt. intros H. apply Qle_bool_iff in H. congruence.
Qed.

(* max(0, largest successor value) *)
Definition amax (u : vec) (l : list trans) : Q := fold_right (fun t s => qmx (u (dst t)) s) 0 l.

Lemma amax_nonneg u l : 0 <= amax u l.
Proof.
  induction l as [|t l IH]; cbn [amax fold_right]; [lra|]. fold (amax u l).
  destruct (qmx_cases (u (dst t)) (amax u l)) as [[-> H]|[-> H]]; lra.
Qed.
Lemma amax_ge u l t : In t l -> u (dst t) <= amax u l.
Proof.
  induction l as [|t0 l IH]; intros Hin; [destruct Hin|]. cbn [amax fold_right]. fold (amax u l).
  destruct (qmx_cases (u (dst t0)) (amax u l)) as [[-> H]|[-> H]]; destruct Hin as [->|Hin]; try lra;
    specialize (IH Hin); lra.
Qed.
Lemma amax_le u l c : 0 <= c -> (forall t, In t l -> u (dst t) <= c) -> amax u l <= c.
Proof.
  intros Hc. induction l as [|t0 l IH]; intros H; cbn [amax fold_right]; [exact Hc|]. fold (amax u l).
  assert (amax u l <= c) by (apply IH; intros t Ht; apply H; right; exact Ht).
  assert (u (dst t0) <= c) by (apply H; left; reflexivity).
  destruct (qmx_cases (u (dst t0)) (amax u l)) as [[-> _]|[-> _]]; lra.
Qed.

(* folds of the Bellman step only look at the successors' values *)
Lemma fmax_shift_local x y l d : (forall t, In t l -> y (dst t) <= x (dst t) + d) ->
  forall m m', m' <= m + d -> fmax y l m' <= fmax x l m + d.
Proof.
  induction l as [|t l IH]; intros H m m' Hm; cbn [fmax fold_left]; [exact Hm|].
  apply IH; [intros u Hu; apply H; right; exact Hu|]. cbn zeta. pose proof (H t (or_introl eq_refl)) as Ht.
  destruct (qltb_cases m (x (dst t))) as [[-> H1]|[-> H1]], (qltb_cases m' (y (dst t))) as [[-> H2]|[-> H2]]; lra.
Qed.
Lemma fmin_shift_local x y l d : (forall t, In t l -> y (dst t) <= x (dst t) + d) ->
  forall m m', m' <= m + d -> fmin y l m' <= fmin x l m + d.
Proof.
  induction l as [|t l IH]; intros H m m' Hm; cbn [fmin fold_left]; [exact Hm|].
  apply IH; [intros u Hu; apply H; right; exact Hu|]. cbn zeta. pose proof (H t (or_introl eq_refl)) as Ht.
  destruct (qltb_cases (x (dst t)) m) as [[-> H1]|[-> H1]], (qltb_cases (y (dst t)) m') as [[-> H2]|[-> H2]]; lra.
Qed.

Lemma sumxw_add u w l : sumxw (fun i => u i + w i) l == sumxw u l + sumxw w l.
Proof. induction l as [|t l IH]; cbn [sumxw fold_right]; [lra|]. fold (sumxw (fun i => u i + w i) l) (sumxw u l) (sumxw w l). rewrite IH. lra. Qed.
Lemma sumxw_sub u w l : sumxw (fun i => u i - w i) l == sumxw u l - sumxw w l.
Proof. induction l as [|t l IH]; cbn [sumxw fold_right]; [lra|]. fold (sumxw (fun i => u i - w i) l) (sumxw u l) (sumxw w l). rewrite IH. lra. Qed.
Lemma sumxw_scale c u l : sumxw (fun i => c * u i) l == c * sumxw u l.
Proof. induction l as [|t l IH]; cbn [sumxw fold_right]; [lra|]. fold (sumxw (fun i => c * u i) l) (sumxw u l). rewrite IH. lra. Qed.
Lemma sumxw_mono u w l : nonneg_w l -> (forall t, In t l -> u (dst t) <= w (dst t)) -> sumxw u l <= sumxw w l.
Proof.
  induction l as [|t l IH]; intros Hp H; cbn [sumxw fold_right]; [lra|]. fold (sumxw u l) (sumxw w l).
  assert (sumxw u l <= sumxw w l) by (apply IH; [intros a Ha; apply Hp; right; exact Ha|intros a Ha; apply H; right; exact Ha]).
  assert (0 <= pr t) by (apply Hp; left; reflexivity). pose proof (H t (or_introl eq_refl)). nra.
Qed.
Lemma sumxw_const c l : sumxw (fun _ => c) l == c * sumw l.
Proof. induction l as [|t l IH]; cbn [sumxw sumw fold_right]; [lra|]. fold (sumxw (fun _ => c) l) (sumw l). rewrite IH. lra. Qed.

Section Bound.
Variable kd : nat -> kind.
Variable tr : nat -> list trans.
Variable inS : nat -> bool.           (* the states the loop iterates over *)
Hypothesis Hw : forall i, kd i = PR -> nonneg_w (tr i).
Hypothesis Hs : forall i, kd i = PR -> sumw (tr i) <= 1.

Definition A (u : vec) (s : nat) : Q := match kd s with PR => sumxw u (tr s) | _ => amax u (tr s) end.
Definition B (u : vec) (s : nat) : Q := if inS s then A u s else 0.

Lemma A_mono u w s : (forall i, u i <= w i) -> A u s <= A w s.
Proof.
  intros H. unfold A. destruct (kd s) eqn:E.
  - apply amax_le; [apply amax_nonneg|]. intros t Ht. eapply Qle_trans; [apply H|apply amax_ge; exact Ht].
  - apply amax_le; [apply amax_nonneg|]. intros t Ht. eapply Qle_trans; [apply H|apply amax_ge; exact Ht].
  - apply sumxw_mono; [apply Hw; exact E|intros t _; apply H].
Qed.
Lemma A_subadd u w s : A (fun i => u i + w i) s <= A u s + A w s.
Proof.
  unfold A. destruct (kd s).
  - apply amax_le; [pose proof (amax_nonneg u (tr s)); pose proof (amax_nonneg w (tr s)); lra|].
    intros t Ht. pose proof (amax_ge u _ _ Ht). pose proof (amax_ge w _ _ Ht). lra.
  - apply amax_le; [pose proof (amax_nonneg u (tr s)); pose proof (amax_nonneg w (tr s)); lra|].
    intros t Ht. pose proof (amax_ge u _ _ Ht). pose proof (amax_ge w _ _ Ht). lra.
  - rewrite sumxw_add. lra.
Qed.
Lemma A_scale c u s : 0 <= c -> A (fun i => c * u i) s <= c * A u s.
Proof.
  intros Hc. unfold A. destruct (kd s).
  - apply amax_le; [pose proof (amax_nonneg u (tr s)); nra|]. intros t Ht. pose proof (amax_ge u _ _ Ht). nra.
  - apply amax_le; [pose proof (amax_nonneg u (tr s)); nra|]. intros t Ht. pose proof (amax_ge u _ _ Ht). nra.
  - rewrite sumxw_scale. lra.
Qed.
Lemma A_nonneg u s : (forall i, 0 <= u i) -> 0 <= A u s.
Proof.
  intros H. unfold A. destruct (kd s) eqn:E; try apply amax_nonneg.
  eapply Qle_trans; [|apply (sumxw_mono (fun _ => 0) u); [apply Hw; exact E|intros t _; apply H]].
  rewrite sumxw_const. lra.
Qed.

Lemma B_mono u w s : (forall i, u i <= w i) -> B u s <= B w s.
Proof. intros H. unfold B. destruct (inS s); [apply A_mono; exact H|lra]. Qed.

(* the Bellman step moves by at most the largest / weighted movement of the successors *)
Lemma Phi_diff x y s : Phi kd tr y s - Phi kd tr x s <= A (fun i => y i - x i) s.
Proof.
  unfold Phi, A. rewrite !rstep_unfold. destruct (kd s) eqn:E.
  - set (c := amax (fun i => y i - x i) (tr s)).
    assert (fmax y (tr s) 0 <= fmax x (tr s) 0 + c); [|lra].
    apply fmax_shift_local; [|pose proof (amax_nonneg (fun i => y i - x i) (tr s)); fold c in H; lra].
    intros t Ht. pose proof (amax_ge (fun i => y i - x i) _ _ Ht) as H. fold c in H. cbn beta in H. lra.
  - set (c := amax (fun i => y i - x i) (tr s)).
    assert (fmin y (tr s) 1 <= fmin x (tr s) 1 + c); [|lra].
    apply fmin_shift_local; [|pose proof (amax_nonneg (fun i => y i - x i) (tr s)); fold c in H; lra].
    intros t Ht. pose proof (amax_ge (fun i => y i - x i) _ _ Ht) as H. fold c in H. cbn beta in H. lra.
  - rewrite !wsum_spec, sumxw_sub. lra.
Qed.

Fixpoint Bpow (k : nat) (u : vec) : vec := match k with O => u | S k => B (Bpow k u) end.

Lemma Bpow_mono k : forall u w, (forall i, u i <= w i) -> forall s, Bpow k u s <= Bpow k w s.
Proof. induction k as [|k IH]; intros u w H s; cbn [Bpow]; [apply H|]. apply B_mono. apply IH. exact H. Qed.

(* the abstract argument: e <= B e + eps, e bounded, T a certificate  ==>  e <= eps * T *)
Theorem abstract_bound (e T : vec) (eps C M : Q) :
  0 <= eps -> 0 <= C ->
  (forall s, e s <= B e s + eps) ->
  (forall s, inS s = false -> e s <= 0) ->
  (forall s, e s <= C) ->
  (forall s, 1 + B T s <= T s) -> (forall s, 0 <= T s <= M) ->
  forall s, e s <= eps * T s.
Proof.
  intros Heps HC Hee Hout He1 HT HTb.
  set (d := fun i => e i - eps * T i).
  assert (HT1 : forall s, 1 <= T s).
  { intros s. specialize (HT s). assert (0 <= B T s); [|lra].
    unfold B. destruct (inS s); [apply A_nonneg; intros i; apply HTb|lra]. }
  assert (HM : 1 <= M) by (specialize (HT1 0%nat); specialize (HTb 0%nat); lra).
  assert (Hdd : forall s, d s <= B d s).
  { intros s. pose proof (Hee s) as H1. pose proof (HT s) as H2. unfold B in *. destruct (inS s) eqn:Es.
    - assert (H3 : A e s <= A d s + eps * A T s).
      { eapply Qle_trans; [apply (A_mono e (fun i => d i + eps * T i)); intros i; unfold d; lra|].
        eapply Qle_trans; [apply A_subadd|]. pose proof (A_scale eps T s Heps). lra. }
      unfold d at 1. nra.
    - unfold d. specialize (Hout s Es). specialize (HT1 s). nra. }
  assert (Hdk : forall k s, d s <= Bpow k d s).
  { induction k as [|k IH]; intros s; cbn [Bpow]; [lra|]. eapply Qle_trans; [apply Hdd|]. apply B_mono. exact IH. }
  assert (HdT : forall s, d s <= C * T s).
  { intros s. unfold d. specialize (He1 s). specialize (HT1 s). nra. }
  set (rho := 1 - 1 / M).
  assert (Hrho : 0 <= rho <= 1).
  { subst rho. split.
    - assert (1 / M <= 1); [|lra]. apply Qle_shift_div_r; lra.
    - assert (0 <= 1 / M); [|lra]. apply Qle_shift_div_l; lra. }
  assert (HBT : forall s, B T s <= rho * T s).
  { intros s. specialize (HT s). specialize (HTb s). subst rho.
    assert (T s / M <= 1) by (apply Qle_shift_div_r; lra).
    assert (Hf : (1 - 1 / M) * T s == T s - T s / M) by (field; lra). rewrite Hf. lra. }
  assert (Hpow0 : forall k, 0 <= qpow rho k <= 1).
  { induction k as [|k IH]; cbn [qpow]; [lra|]. nra. }
  assert (HBk : forall k s, Bpow k (fun i => C * T i) s <= C * (qpow rho k * T s)).
  { induction k as [|k IH]; intros s; cbn [Bpow qpow]; [lra|].
    eapply Qle_trans; [apply (B_mono _ (fun i => (C * qpow rho k) * T i)); intros i; specialize (IH i); lra|].
    assert (Hsc : B (fun i => (C * qpow rho k) * T i) s <= (C * qpow rho k) * B T s).
    { unfold B. destruct (inS s); [apply A_scale; pose proof (Hpow0 k); nra|lra]. }
    specialize (HBT s). pose proof (Hpow0 k).
    set (c := C * qpow rho k) in *. assert (Hc0 : 0 <= c) by (subst c; nra).
    assert (Heq : C * (rho * qpow rho k * T s) == c * (rho * T s)) by (subst c; ring).
    rewrite Heq. eapply Qle_trans; [exact Hsc|]. nra. }
  assert (Hgeo : forall k, qpow rho k * (M + inject_Z (Z.of_nat k)) <= M).
  { induction k as [|k IH]; cbn [qpow].
    - change (inject_Z (Z.of_nat 0)) with 0. lra.
    - rewrite Nat2Z.inj_succ. unfold Z.succ. rewrite inject_Z_plus. change (inject_Z 1) with 1.
      assert (HrM : rho * M == M - 1) by (subst rho; field; lra).
      pose proof (Hpow0 (S k)) as Hp. cbn [qpow] in Hp. pose proof (Hpow0 k). nra. }
  intros s. destruct (Qlt_le_dec 0 (d s)) as [Hpos|Hneg]; [|unfold d in Hneg; lra].
  exfalso.
  assert (Hall : forall k, d s * (M + inject_Z (Z.of_nat k)) <= C * (M * M)).
  { intros k. pose proof (Hdk k s) as H1. pose proof (Bpow_mono k d (fun i => C * T i) HdT s) as H2. pose proof (HBk k s) as H3.
    pose proof (Hgeo k) as H4. pose proof (HTb s) as H5. pose proof (Hpow0 k) as H6.
    assert (0 <= inject_Z (Z.of_nat k)) by (change 0 with (inject_Z 0); rewrite <- Zle_Qle; lia).
    set (q := qpow rho k) in *.
    assert (Hq1 : q * T s <= q * M) by nra.
    assert (Hq2 : C * (q * T s) <= C * (q * M)) by nra.
    assert (Hd1 : d s <= C * (q * M)) by lra.
    set (K := inject_Z (Z.of_nat k)) in *.
    assert (Hq3 : q * M * (M + K) <= M * M) by nra.
    assert (Hq4 : C * (q * M) * (M + K) <= C * (M * M)).
    { assert (Heq : C * (q * M) * (M + K) == C * (q * M * (M + K))) by ring. rewrite Heq. nra. }
    assert (0 <= M + K) by lra. nra. }
  destruct (Qarchimedean (C * (M * M) / d s)) as [p Hp].
  specialize (Hall (Pos.to_nat p)). rewrite positive_nat_Z in Hall.
  assert (C * (M * M) < d s * (Z.pos p # 1)).
  { set (q := C * (M * M) / d s) in *. assert (Hq : C * (M * M) == q * d s) by (subst q; field; lra).
    rewrite Hq. nra. }
  change (inject_Z (Z.pos p)) with (Z.pos p # 1) in Hall. nra.
Qed.

Theorem error_bound (x y T : vec) (eps M : Q) :
  0 <= eps ->
  (forall s, inS s = true -> y s = Phi kd tr y s) ->                  (* y is a fixed point on S *)
  (forall s, inS s = true -> Phi kd tr x s - x s <= eps) ->           (* x has residual at most eps on S *)
  (forall s, inS s = false -> y s = x s) ->                           (* they agree elsewhere (finals, dead states) *)
  (forall s, y s - x s <= 1) ->
  (forall s, 1 + B T s <= T s) -> (forall s, 0 <= T s <= M) ->        (* certificate of bounded absorption time *)
  forall s, y s - x s <= eps * T s.
Proof.
  intros Heps Hy Hx Hout He1 HT HTb.
  apply (abstract_bound (fun i => y i - x i) T eps 1 M); try assumption; try lra.
  - intros s. unfold B. destruct (inS s) eqn:Es.
    + pose proof (Phi_diff x y s). rewrite (Hy s Es) at 1. specialize (Hx s Es). lra.
    + rewrite (Hout s Es). lra.
  - intros s Es. rewrite (Hout s Es). lra.
Qed.
End Bound.
