(** Correctness of the reversed-edge table and of the backward search (C07). *)
From Coq Require Import String List Arith Bool Lia Sorted Permutation.
From CR Require Import Model.Outcome Model.Graph.
Import ListNotations.

(** * Specification *)
Definition edge (tl : list (list nat)) (u v : nat) : Prop :=
  exists succs, nth_error tl u = Some succs /\ In v succs.

Inductive path (tl : list (list nat)) : nat -> nat -> Prop :=
| path_refl s : path tl s s
| path_step u v w : edge tl u v -> path tl v w -> path tl u w.

Lemma path_trans tl a b c : path tl a b -> path tl b c -> path tl a c.
Proof. induction 1; intros; [assumption|]. eapply path_step; eauto. Qed.

Lemma path_snoc tl a b c : path tl a b -> edge tl b c -> path tl a c.
Proof. intros H E. eapply path_trans; [exact H|]. eapply path_step; [exact E|apply path_refl]. Qed.

(** * mem_nat *)
Lemma mem_nat_In x l : mem_nat x l = true <-> In x l.
Proof.
  unfold mem_nat. rewrite existsb_exists. split.
  - intros [y [Hy E]]. apply Nat.eqb_eq in E. subst. exact Hy.
  - intros H. exists x. split; [exact H|apply Nat.eqb_refl].
Qed.
Lemma mem_nat_false x l : mem_nat x l = false <-> ~ In x l.
Proof.
  rewrite <- mem_nat_In. destruct (mem_nat x l); split; intros; congruence.
Qed.

(** * The reversed-edge list *)
Definition preds_core (core : list (nat * nat)) (k : nat) : list nat :=
  map snd (filter (fun p => Nat.eqb (fst p) k) core).
Definition preds (tl : list (list nat)) (v : nat) : list nat := preds_core (rev_core tl) v.

Lemma rev_core_gen_In (tl : list (list nat)) a u v :
  In (v, u) (flat_map (fun us => map (fun v => (v, fst us)) (snd us)) (combine (seq a (length tl)) tl))
  <-> a <= u /\ exists succs, nth_error tl (u - a) = Some succs /\ In v succs.
Proof.
  revert a. induction tl as [|row tl IH]; intros a; cbn [length seq combine flat_map].
  - split; [intros []|]. intros [_ [s [H _]]]. destruct (u - a); discriminate.
  - rewrite in_app_iff, IH. cbn [fst snd]. rewrite in_map_iff. split.
    + intros [[x [E Hx]]|[Hle [s [Hn Hs]]]].
      * inversion E; subst. split; [lia|]. exists row. rewrite Nat.sub_diag. split; [reflexivity|exact Hx].
      * split; [lia|]. exists s. split; [|exact Hs].
        replace (u - a) with (S (u - S a)) by lia. exact Hn.
    + intros [Hle [s [Hn Hs]]]. destruct (Nat.eq_dec u a) as [->|Hne].
      * left. rewrite Nat.sub_diag in Hn. cbn in Hn. inversion Hn; subst. exists v. split; [reflexivity|exact Hs].
      * right. split; [lia|]. exists s. split; [|exact Hs].
        replace (u - a) with (S (u - S a)) in Hn by lia. exact Hn.
Qed.

Lemma rev_core_In tl u v : In (v, u) (rev_core tl) <-> edge tl u v.
Proof.
  unfold rev_core, edge. rewrite rev_core_gen_In. rewrite Nat.sub_0_r. split.
  - intros [_ H]. exact H.
  - intros H. split; [lia|exact H].
Qed.

Lemma preds_In tl u v : In u (preds tl v) <-> edge tl u v.
Proof.
  unfold preds, preds_core. rewrite in_map_iff. split.
  - intros [[a b] [E H]]. cbn in E. subst b. apply filter_In in H. destruct H as [H E].
    cbn in E. apply Nat.eqb_eq in E. subst a. apply rev_core_In. exact H.
  - intros H. exists (v, u). split; [reflexivity|]. apply filter_In. split.
    + apply rev_core_In. exact H.
    + cbn. apply Nat.eqb_refl.
Qed.

(* multiplicity: u is listed under v once per transition u -> v *)
Lemma count_flat_map_rows (tl : list (list nat)) a u v :
  count_occ Nat.eq_dec
    (preds_core (flat_map (fun us => map (fun v => (v, fst us)) (snd us)) (combine (seq a (length tl)) tl)) v) u
  = if (a <=? u) then count_occ Nat.eq_dec (nth (u - a) tl []) v else 0.
Proof.
  revert a. induction tl as [|row tl IH]; intros a; cbn [length seq combine flat_map].
  - cbn. destruct (a <=? u); [destruct (u - a)|]; reflexivity.
  - unfold preds_core in *. rewrite filter_app, map_app, count_occ_app, IH. cbn [fst snd].
    assert (Hrow : count_occ Nat.eq_dec
               (map snd (filter (fun p : nat * nat => fst p =? v) (map (fun v0 : nat => (v0, a)) row))) u
             = if Nat.eq_dec a u then count_occ Nat.eq_dec row v else 0).
    { clear. induction row as [|x row IHr]; cbn [map filter fst].
      - destruct (Nat.eq_dec a u); reflexivity.
      - destruct (Nat.eqb_spec x v) as [->|Hx]; cbn [map snd count_occ].
        + destruct (Nat.eq_dec a u) as [->|Hau].
          * destruct (Nat.eq_dec v v); [|congruence]. rewrite IHr. destruct (Nat.eq_dec u u); [reflexivity|congruence].
          * rewrite IHr. destruct (Nat.eq_dec a u); [congruence|reflexivity].
        + rewrite IHr. destruct (Nat.eq_dec a u); [|reflexivity].
          destruct (Nat.eq_dec x v); [congruence|reflexivity]. }
    rewrite Hrow.
    destruct (Nat.eq_dec a u) as [->|Hau].
    + rewrite Nat.leb_refl, Nat.sub_diag. cbn [nth].
      destruct (Nat.leb_spec (S u) u); [lia|]. lia.
    + destruct (Nat.leb_spec a u), (Nat.leb_spec (S a) u); try lia.
      replace (u - a) with (S (u - S a)) by lia. reflexivity.
Qed.

Lemma preds_count tl u v :
  count_occ Nat.eq_dec (preds tl v) u = count_occ Nat.eq_dec (nth u tl []) v.
Proof. unfold preds, rev_core. rewrite count_flat_map_rows. cbn. rewrite Nat.sub_0_r. reflexivity. Qed.

Lemma HdRel_of_Forall a l : Forall (fun u => a <= u) l -> HdRel le a l.
Proof. intros H. destruct l; constructor. inversion H; assumption. Qed.

(* sources are listed in source order *)
Lemma preds_sorted_gen (tl : list (list nat)) a v :
  let l := preds_core (flat_map (fun us => map (fun v => (v, fst us)) (snd us)) (combine (seq a (length tl)) tl)) v in
  Sorted le l /\ Forall (fun u => a <= u) l.
Proof.
  revert a. induction tl as [|row tl IH]; intros a; cbn [length seq combine flat_map].
  - cbn. split; constructor.
  - cbn zeta. unfold preds_core in *. rewrite filter_app, map_app. cbn [fst snd].
    destruct (IH (S a)) as [IHs IHf].
    set (h := map snd (filter (fun p : nat * nat => fst p =? v) (map (fun v0 : nat => (v0, a)) row))).
    assert (Hh : Forall (fun u => u = a) h).
    { subst h. clear. induction row as [|x row IHr]; cbn; [constructor|].
      destruct (x =? v); cbn; [constructor; [reflexivity|]|]; exact IHr. }
    split.
    + clear IH. induction h as [|x h IHh]; cbn [app].
      * exact IHs.
      * inversion Hh as [|? ? Hx Hh']; subst. constructor; [apply IHh; exact Hh'|].
        destruct h as [|y h]; cbn [app].
        -- apply HdRel_of_Forall. eapply Forall_impl; [|exact IHf]. cbn. intros; lia.
        -- inversion Hh' as [|? ? Hy _]; subst. constructor. lia.
    + apply Forall_app. split.
      * eapply Forall_impl; [|exact Hh]. cbn. intros; lia.
      * eapply Forall_impl; [|exact IHf]. cbn. intros; lia.
Qed.

Lemma preds_sorted tl v : Sorted le (preds tl v).
Proof. unfold preds, rev_core. apply (preds_sorted_gen tl 0 v). Qed.

(** * The dictionary *)
Lemma dict_append_get d k v k' :
  dict_get (dict_append d k v) k' =
  if Nat.eqb k k' then Some (match dict_get d k with Some l => l ++ [v] | None => [v] end)
  else dict_get d k'.
Proof.
  induction d as [|[k0 l0] d IH]; cbn [dict_append dict_get].
  - destruct (Nat.eqb_spec k k'); reflexivity.
  - destruct (Nat.eqb_spec k0 k) as [->|Hk0]; cbn [dict_get].
    + destruct (Nat.eqb_spec k k'); reflexivity.
    + destruct (Nat.eqb_spec k0 k') as [->|Hk0'].
      * destruct (Nat.eqb_spec k k'); [congruence|reflexivity].
      * exact IH.
Qed.

Lemma l2d_get_gen core : forall d k,
  dict_get (fold_left (fun d kv => dict_append d (fst kv) (snd kv)) core d) k =
  match dict_get d k with
  | Some l => Some (l ++ preds_core core k)
  | None => if existsb (fun p => Nat.eqb (fst p) k) core then Some (preds_core core k) else None
  end.
Proof.
  induction core as [|[a b] core IH]; intros d k; cbn [fold_left].
  - unfold preds_core. cbn. destruct (dict_get d k); [rewrite app_nil_r|]; reflexivity.
  - rewrite IH. cbn [fst snd]. rewrite dict_append_get. unfold preds_core. cbn [filter existsb fst].
    destruct (Nat.eqb_spec a k) as [->|Hak].
    + cbn [map snd orb]. destruct (dict_get d k); [rewrite <- app_assoc|]; reflexivity.
    + cbn [orb]. reflexivity.
Qed.

Lemma l2d_get core k :
  dict_get (l2d core) k =
  if existsb (fun p => Nat.eqb (fst p) k) core then Some (preds_core core k) else None.
Proof. unfold l2d. rewrite l2d_get_gen. reflexivity. Qed.

Lemma dict_get_app_single d s k :
  dict_get (d ++ [(s, [])]) k =
  match dict_get d k with Some l => Some l | None => if Nat.eqb s k then Some [] else None end.
Proof.
  induction d as [|[k0 l0] d IH]; cbn [app dict_get]; [reflexivity|].
  destruct (Nat.eqb k0 k); [reflexivity|exact IH].
Qed.

Lemma add_missing_get_gen n : forall a d k,
  dict_get (fold_left (fun d s => match dict_get d s with Some _ => d | None => d ++ [(s, [])] end) (seq a n) d) k =
  match dict_get d k with
  | Some l => Some l
  | None => if (a <=? k) && (k <? a + n) then Some [] else None
  end.
Proof.
  induction n as [|n IH]; intros a d k; cbn [seq fold_left].
  - destruct (dict_get d k); [reflexivity|].
    destruct (Nat.leb_spec a k), (Nat.ltb_spec k (a + 0)); cbn; try reflexivity; lia.
  - rewrite IH. destruct (dict_get d a) eqn:Ea.
    + destruct (dict_get d k) eqn:Ek; [reflexivity|].
      destruct (Nat.eq_dec a k) as [->|Hak]; [congruence|].
      destruct (Nat.leb_spec (S a) k), (Nat.leb_spec a k), (Nat.ltb_spec k (S a + n)), (Nat.ltb_spec k (a + S n));
        cbn; try reflexivity; lia.
    + rewrite dict_get_app_single. destruct (dict_get d k) eqn:Ek; [reflexivity|].
      destruct (Nat.eqb_spec a k) as [->|Hak].
      * destruct (Nat.leb_spec k k), (Nat.ltb_spec k (k + S n)); cbn; try reflexivity; lia.
      * destruct (Nat.leb_spec (S a) k), (Nat.leb_spec a k), (Nat.ltb_spec k (S a + n)), (Nat.ltb_spec k (a + S n));
          cbn; try reflexivity; lia.
Qed.

Lemma table_get tl v :
  dict_get (rev_table tl) v =
  if existsb (fun p => Nat.eqb (fst p) v) (rev_core tl) || (v <? length tl)
  then Some (preds tl v) else None.
Proof.
  unfold rev_table, add_missing. rewrite add_missing_get_gen, l2d_get. unfold preds.
  destruct (existsb _ (rev_core tl)) eqn:Ex; cbn [orb]; [reflexivity|].
  cbn [Nat.leb andb Nat.add]. destruct (v <? length tl); [|reflexivity].
  f_equal. unfold preds_core.
  assert (H : filter (fun p : nat * nat => fst p =? v) (rev_core tl) = []).
  { apply not_true_iff_false in Ex. destruct (filter _ _) as [|p l] eqn:Ef; [reflexivity|]. exfalso. apply Ex.
    assert (Hin : In p (filter (fun p : nat * nat => fst p =? v) (rev_core tl))) by (rewrite Ef; left; reflexivity).
    apply filter_In in Hin. apply existsb_exists. exists p. exact Hin. }
  rewrite H. reflexivity.
Qed.

Lemma table_get_inrange tl v : v < length tl -> dict_get (rev_table tl) v = Some (preds tl v).
Proof.
  intros H. rewrite table_get. apply Nat.ltb_lt in H. rewrite H, orb_true_r. reflexivity.
Qed.

Lemma table_get_some tl v l : dict_get (rev_table tl) v = Some l -> l = preds tl v.
Proof. rewrite table_get. destruct (_ || _); congruence. Qed.

Lemma edge_source_inrange tl u v : edge tl u v -> u < length tl.
Proof. intros [s [H _]]. apply nth_error_Some. congruence. Qed.

(** total size of the table = number of transitions *)
Definition dict_size (d : dict) : nat := fold_right (fun kl s => length (snd kl) + s) 0 d.
Lemma dict_size_app d1 d2 : dict_size (d1 ++ d2) = dict_size d1 + dict_size d2.
Proof. induction d1 as [|[k l] d1 IH]; cbn; [reflexivity|]. unfold dict_size in *. cbn. rewrite IH. lia. Qed.
Lemma dict_append_size d k v : dict_size (dict_append d k v) = S (dict_size d).
Proof.
  induction d as [|[k0 l0] d IH]; cbn [dict_append]; [reflexivity|].
  destruct (Nat.eqb k0 k); unfold dict_size in *; cbn [fold_right snd].
  - rewrite app_length. cbn. lia.
  - rewrite IH. lia.
Qed.
Lemma l2d_size core : dict_size (l2d core) = length core.
Proof.
  unfold l2d. assert (H : forall d, dict_size (fold_left (fun d kv => dict_append d (fst kv) (snd kv)) core d) = dict_size d + length core).
  { induction core as [|p core IH]; intros d; cbn [fold_left length]; [lia|]. rewrite IH, dict_append_size. lia. }
  rewrite H. reflexivity.
Qed.
Lemma add_missing_size d n : dict_size (add_missing d n) = dict_size d.
Proof.
  unfold add_missing. generalize 0. revert d. induction n as [|n IH]; intros d a; cbn [seq fold_left]; [reflexivity|].
  rewrite IH. destruct (dict_get d a); [reflexivity|]. rewrite dict_size_app. cbn. lia.
Qed.
Lemma table_size tl : dict_size (rev_table tl) = edge_count tl.
Proof. unfold rev_table, edge_count. rewrite add_missing_size, l2d_size. reflexivity. Qed.

(** * The search loop *)
Definition bedge (d : dict) (u v : nat) : Prop := exists ps, dict_get d v = Some ps /\ In u ps.
Inductive bpath (d : dict) : nat -> nat -> Prop :=
| bpath_refl s : bpath d s s
| bpath_step u v w : bedge d u v -> bpath d v w -> bpath d u w.

Lemma bpath_trans d a b c : bpath d a b -> bpath d b c -> bpath d a c.
Proof. induction 1; intros; [assumption|]. eapply bpath_step; eauto. Qed.
Lemma bpath_snoc d a b c : bpath d a b -> bedge d b c -> bpath d a c.
Proof. intros H E. eapply bpath_trans; [exact H|]. eapply bpath_step; [exact E|apply bpath_refl]. Qed.

Lemma NoDup_snoc {A} (l : list A) x : NoDup l -> ~ In x l -> NoDup (l ++ [x]).
Proof.
  intros Hnd Hx. induction Hnd as [|y l Hy Hnd IH]; cbn.
  - constructor; [intros []|constructor].
  - constructor.
    + rewrite in_app_iff. intros [H|[H|[]]]; [exact (Hy H)|]. subst. apply Hx. left. reflexivity.
    + apply IH. intros H. apply Hx. right. exact H.
Qed.

Definition closedP (d : dict) (rec pending : list nat) : Prop :=
  forall v u, In v rec -> bedge d u v -> In u rec \/ In u pending.

Lemma dfs_loop_ok d : forall fuel pending rec r,
  dfs_loop fuel d pending rec = Ok r ->
  NoDup rec -> closedP d rec pending ->
  NoDup r /\ incl rec r /\ incl pending r /\ closedP d r [] /\
  (forall x, In x r -> In x rec \/ exists p, In p pending /\ bpath d x p).
Proof.
  induction fuel as [|fuel IH]; intros pending rec r H Hnd Hcl; cbn [dfs_loop] in H; [discriminate|].
  destruct pending as [|cur rest].
  - inversion H; subst r. repeat split; try assumption.
    + apply incl_refl.
    + intros x [].
    + intros x Hx. left. exact Hx.
  - destruct (mem_nat cur rec) eqn:Hm.
    + apply mem_nat_In in Hm.
      destruct (IH rest rec r H Hnd) as (A & B & C & D & E).
      { intros v u Hv He. destruct (Hcl v u Hv He) as [Hu|[Hu|Hu]]; [left; exact Hu| subst; left; exact Hm| right; exact Hu]. }
      repeat split; try assumption.
      * intros x [<-|Hx]; [apply B; exact Hm|apply C; exact Hx].
      * intros x Hx. destruct (E x Hx) as [Hr|[p [Hp Hb]]]; [left; exact Hr|].
        right. exists p. split; [right; exact Hp|exact Hb].
    + apply mem_nat_false in Hm. destruct (dict_get d cur) as [ps|] eqn:Eg; [|discriminate].
      destruct (IH (ps ++ rest) (rec ++ [cur]) r H) as (A & B & C & D & E).
      { apply NoDup_snoc; assumption. }
      { intros v u Hv He. apply in_app_iff in Hv. destruct Hv as [Hv|[<-|[]]].
        - destruct (Hcl v u Hv He) as [Hu|[Hu|Hu]].
          + left. apply in_app_iff. left. exact Hu.
          + subst. left. apply in_app_iff. right. left. reflexivity.
          + right. apply in_app_iff. right. exact Hu.
        - destruct He as [ps' [Eg' Hu]]. rewrite Eg in Eg'. inversion Eg'; subst ps'.
          right. apply in_app_iff. left. exact Hu. }
      repeat split; try assumption.
      * intros x Hx. apply B. apply in_app_iff. left. exact Hx.
      * intros x [<-|Hx]; [apply B; apply in_app_iff; right; left; reflexivity|].
        apply C. apply in_app_iff. right. exact Hx.
      * intros x Hx. destruct (E x Hx) as [Hr|[p [Hp Hb]]].
        -- apply in_app_iff in Hr. destruct Hr as [Hr|[<-|[]]]; [left; exact Hr|].
           right. exists cur. split; [left; reflexivity|apply bpath_refl].
        -- apply in_app_iff in Hp. destruct Hp as [Hp|Hp].
           ++ right. exists cur. split; [left; reflexivity|].
              eapply bpath_snoc; [exact Hb|]. exists ps. split; assumption.
           ++ right. exists p. split; [right; exact Hp|exact Hb].
Qed.

(** * Enough fuel for every graph *)
Definition pot (d : dict) (rec : list nat) : nat :=
  fold_right (fun kl s => (if mem_nat (fst kl) rec then 0 else S (length (snd kl))) + s) 0 d.

Lemma mem_nat_snoc x rec c : mem_nat x (rec ++ [c]) = mem_nat x rec || Nat.eqb x c.
Proof. unfold mem_nat. rewrite existsb_app. cbn. rewrite orb_false_r. reflexivity. Qed.

Lemma pot_mono d rec c : pot d (rec ++ [c]) <= pot d rec.
Proof.
  induction d as [|[k l] d IH]; cbn [pot fold_right fst snd]; [lia|].
  fold (pot d (rec ++ [c])). fold (pot d rec). rewrite mem_nat_snoc.
  destruct (mem_nat k rec); cbn [orb]; [lia|]. destruct (k =? c); lia.
Qed.

Lemma pot_visit d rec cur ps :
  dict_get d cur = Some ps -> ~ In cur rec -> pot d (rec ++ [cur]) + S (length ps) <= pot d rec.
Proof.
  intros Hg Hn. induction d as [|[k l] d IH]; cbn [dict_get] in Hg; [discriminate|].
  cbn [pot fold_right fst snd]. fold (pot d (rec ++ [cur])). fold (pot d rec). rewrite mem_nat_snoc.
  destruct (Nat.eqb_spec k cur) as [->|Hk].
  - inversion Hg; subst l. apply mem_nat_false in Hn. rewrite Hn. cbn [orb].
    pose proof (pot_mono d rec cur). lia.
  - specialize (IH Hg). destruct (mem_nat k rec); cbn [orb]; lia.
Qed.

Lemma pot_nil d : pot d [] = length d + dict_size d.
Proof.
  induction d as [|[k l] d IH]; cbn [pot fold_right fst snd length dict_size]; [reflexivity|].
  fold (pot d []). fold (dict_size d). cbn [mem_nat existsb]. lia.
Qed.

Lemma pot_le_nil d rec : pot d rec <= pot d [].
Proof.
  induction d as [|[k l] d IH]; cbn [pot fold_right fst snd]; [lia|].
  fold (pot d rec). fold (pot d []). cbn [mem_nat existsb]. destruct (mem_nat k rec); lia.
Qed.

Definition keys_ok (d : dict) : Prop :=
  forall v ps u, dict_get d v = Some ps -> In u ps -> dict_get d u <> None.

Lemma dfs_loop_terminates d (Hk : keys_ok d) : forall fuel pending rec,
  (forall p, In p pending -> dict_get d p <> None) ->
  length pending + pot d rec < fuel ->
  exists r, dfs_loop fuel d pending rec = Ok r.
Proof.
  induction fuel as [|fuel IH]; intros pending rec Hp Hf; [lia|].
  cbn [dfs_loop]. destruct pending as [|cur rest]; [eexists; reflexivity|].
  cbn [length] in Hf. destruct (mem_nat cur rec) eqn:Hm.
  - apply IH; [intros p H; apply Hp; right; exact H|lia].
  - apply mem_nat_false in Hm. destruct (dict_get d cur) as [ps|] eqn:Eg.
    + apply IH.
      * intros p H. apply in_app_iff in H. destruct H as [H|H]; [eapply Hk; eauto|apply Hp; right; exact H].
      * rewrite app_length. pose proof (pot_visit d rec cur ps Eg Hm). lia.
    + exfalso. apply (Hp cur); [left; reflexivity|exact Eg].
Qed.

(** * Sorting *)
Lemma insert_perm x l : Permutation (x :: l) (insert_nat x l).
Proof.
  induction l as [|y l IH]; cbn [insert_nat]; [apply Permutation_refl|].
  destruct (x <=? y); [apply Permutation_refl|].
  eapply perm_trans; [apply perm_swap|]. apply perm_skip. exact IH.
Qed.
Lemma sort_perm l : Permutation l (sort_nat l).
Proof.
  induction l as [|x l IH]; cbn [sort_nat fold_right]; [constructor|].
  eapply perm_trans; [apply perm_skip; exact IH|apply insert_perm].
Qed.
Lemma insert_sorted x l : Sorted le l -> Sorted le (insert_nat x l).
Proof.
  induction l as [|y l IH]; intros Hs; cbn [insert_nat]; [repeat constructor|].
  destruct (Nat.leb_spec x y).
  - constructor; [exact Hs|constructor; assumption].
  - inversion Hs as [|? ? Hs' Hhd]; subst. constructor; [apply IH; exact Hs'|].
    destruct l as [|z l]; cbn [insert_nat]; [constructor; lia|].
    destruct (x <=? z); constructor; [lia|]. inversion Hhd; assumption.
Qed.
Lemma sort_sorted l : Sorted le (sort_nat l).
Proof. induction l as [|x l IH]; cbn [sort_nat fold_right]; [constructor|apply insert_sorted; exact IH]. Qed.

Lemma sorted_nodup_strict l : Sorted le l -> NoDup l -> StronglySorted lt l.
Proof.
  intros Hs Hnd. apply Sorted_StronglySorted in Hs; [|intros a b c; apply Nat.le_trans].
  induction Hs as [|x l Hs IH Hall]; [constructor|].
  inversion Hnd as [|? ? Hx Hnd']; subst. constructor; [apply IH; exact Hnd'|].
  rewrite Forall_forall in *. intros y Hy. specialize (Hall y Hy).
  assert (x <> y) by (intros ->; exact (Hx Hy)). lia.
Qed.

(** * The whole search *)
Lemma table_keys_ok tl : keys_ok (rev_table tl).
Proof.
  intros v ps u Hg Hu. apply table_get_some in Hg. subst ps. apply preds_In in Hu.
  apply edge_source_inrange in Hu. rewrite table_get_inrange by exact Hu. discriminate.
Qed.

Lemma bedge_edge tl u v : bedge (rev_table tl) u v <-> edge tl u v.
Proof.
  split.
  - intros [ps [Hg Hu]]. apply table_get_some in Hg. subst ps. apply preds_In. exact Hu.
  - intros He. exists (preds tl v). split; [|apply preds_In; exact He].
    rewrite table_get. apply rev_core_In in He.
    assert (Hex : existsb (fun p : nat * nat => fst p =? v) (rev_core tl) = true).
    { apply existsb_exists. exists (v, u). split; [exact He|cbn; apply Nat.eqb_refl]. }
    rewrite Hex. reflexivity.
Qed.

Lemma bpath_path tl s f : bpath (rev_table tl) s f <-> path tl s f.
Proof.
  split; induction 1; try constructor.
  - eapply path_step; [apply bedge_edge; eassumption|assumption].
  - eapply bpath_step; [apply bedge_edge; eassumption|assumption].
Qed.

Definition search_inv tl (done : list nat) (acc : list nat) : Prop :=
  NoDup acc /\ incl done acc /\ closedP (rev_table tl) acc [] /\
  (forall x, In x acc -> exists f, In f done /\ path tl x f).

Lemma search_fold tl : forall finals done acc,
  (forall f, In f finals -> f < length tl) ->
  search_inv tl done acc ->
  exists r, fold_left (fun o f => do acc <- o; dfs_loop (dfs_fuel tl) (rev_table tl) [f] acc) finals (Ok acc) = Ok r
            /\ search_inv tl (done ++ finals) r.
Proof.
  induction finals as [|f finals IH]; intros done acc Hr Hinv; cbn [fold_left].
  - exists acc. rewrite app_nil_r. split; [reflexivity|exact Hinv].
  - destruct Hinv as (Hnd & Hdone & Hcl & Hsound). cbn [bind].
    destruct (dfs_loop_terminates (rev_table tl) (table_keys_ok tl) (dfs_fuel tl) [f] acc) as [r Hrun].
    + intros p [<-|[]]. rewrite table_get_inrange; [discriminate|apply Hr; left; reflexivity].
    + unfold dfs_fuel. cbn [length]. pose proof (pot_le_nil (rev_table tl) acc).
      rewrite pot_nil, table_size in H. lia.
    + rewrite Hrun.
      destruct (dfs_loop_ok (rev_table tl) _ _ _ _ Hrun Hnd) as (A & B & C & D & E).
      { intros v u Hv He. left. destruct (Hcl v u Hv He) as [H|[]]. exact H. }
      destruct (IH (done ++ [f]) r) as [r' [Hfold Hinv']].
      * intros g Hg. apply Hr. right. exact Hg.
      * repeat split; try assumption.
        -- intros x Hx. apply in_app_iff in Hx. destruct Hx as [Hx|[<-|[]]]; [apply B, Hdone, Hx|apply C; left; reflexivity].
        -- intros x Hx. destruct (E x Hx) as [Hacc|[p [[<-|[]] Hb]]].
           ++ destruct (Hsound x Hacc) as [g [Hg Hp]]. exists g. split; [apply in_app_iff; left; exact Hg|exact Hp].
           ++ exists f. split; [apply in_app_iff; right; left; reflexivity|apply bpath_path; exact Hb].
      * exists r'. split; [exact Hfold|]. rewrite <- app_assoc in Hinv'. exact Hinv'.
Qed.

Theorem reverse_dfs_exact tl finals :
  (forall f, In f finals -> f < length tl) ->
  exists r, reverse_dfs tl finals = Ok r /\
            StronglySorted lt r /\
            (forall s, In s r <-> (~ In s finals /\ exists f, In f finals /\ path tl s f)).
Proof.
  intros Hr. unfold reverse_dfs, reverse_dfs_fuel.
  destruct (search_fold tl finals [] [] Hr) as [acc [Hfold (Hnd & Hdone & Hcl & Hsound)]].
  { repeat split; [constructor|intros x []|intros v u []|intros x []]. }
  rewrite Hfold. cbn [bind app] in *. eexists. split; [reflexivity|].
  set (flt := filter (fun s => negb (mem_nat s finals)) acc).
  assert (Hin : forall s, In s (sort_nat flt) <-> In s acc /\ ~ In s finals).
  { intros s. split.
    - intros H. apply (Permutation_in _ (Permutation_sym (sort_perm flt))) in H.
      apply filter_In in H. destruct H as [H1 H2]. split; [exact H1|].
      apply mem_nat_false. destruct (mem_nat s finals); [discriminate|reflexivity].
    - intros [H1 H2]. apply (Permutation_in _ (sort_perm flt)). apply filter_In. split; [exact H1|].
      apply mem_nat_false in H2. rewrite H2. reflexivity. }
  split.
  - apply sorted_nodup_strict; [apply sort_sorted|].
    eapply Permutation_NoDup; [apply sort_perm|]. apply NoDup_filter. exact Hnd.
  - intros s. rewrite Hin. split.
    + intros [H1 H2]. split; [exact H2|apply Hsound; exact H1].
    + intros [H2 [f [Hf Hp]]]. split; [|exact H2].
      assert (Hfa : In f acc) by (apply Hdone; exact Hf).
      clear H2. induction Hp as [s|u v w He Hp IH]; [exact Hfa|].
      specialize (IH Hf Hfa). apply bedge_edge in He.
      destruct (Hcl v u IH He) as [H|[]]. exact H.
Qed.

(* the reversed table: an entry for every state, u listed under v once per transition u -> v,
   in source order, and nothing but sources of transitions into v *)
Theorem reverse_table_spec tl v :
  v < length tl ->
  exists l, dict_get (rev_table tl) v = Some l /\
            (forall u, count_occ Nat.eq_dec l u = count_occ Nat.eq_dec (nth u tl []) v) /\
            Sorted le l.
Proof.
  intros Hv. exists (preds tl v). split; [apply table_get_inrange; exact Hv|].
  split; [intros u; apply preds_count|apply preds_sorted].
Qed.

Theorem reverse_table_keys tl k l :
  In (k, l) (rev_table tl) -> k < length tl \/ exists u, edge tl u k.
Proof.
  intros Hin.
  assert (Hg : dict_get (rev_table tl) k <> None).
  { clear -Hin. induction (rev_table tl) as [|[k0 l0] d IH]; [destruct Hin|].
    cbn [dict_get]. destruct (Nat.eqb_spec k0 k); [discriminate|].
    destruct Hin as [H|H]; [inversion H; congruence|apply IH; exact H]. }
  rewrite table_get in Hg. destruct (existsb _ _) eqn:Ex; cbn [orb] in Hg.
  - right. apply existsb_exists in Ex. destruct Ex as [[a b] [Hab E]]. cbn in E. apply Nat.eqb_eq in E. subst a.
    exists b. apply rev_core_In. exact Hab.
  - left. destruct (Nat.ltb_spec k (length tl)); [assumption|congruence].
Qed.

(* the pinned tree's search returned a state twice (defect D2) *)
Lemma reverse_dfs_orig_duplicates :
  reverse_dfs_orig 10 [[1]; [1; 2]; [2]] [2] = Ok [0; 1; 1].
Proof. vm_compute. reflexivity. Qed.
