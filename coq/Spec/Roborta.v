(** The Roborta board rules as a structured game (the specification side of C08), written from the
    prose rules and independent of the generator's index arithmetic; and the notion of bisimulation
    used to compare it with the emitted games.

    Rules. The robot stands on a tile (i, j) of an L x W board. On the light's turn ([Light i j],
    owner Player 2, the tile's reward is collected here) the light shows Green (the robot must move
    down) or Yellow (the robot moves left or right as the tile's arrows allow, wrapping around
    inside the row); a down-only tile offers only Green. Landing on a loose tile loses with the
    tile-break probability; moving down from the last row wins.
    Variant A: nothing else fails. Variant B: every move of the robot fails with the robot-break
    probability and then the robot stays on its tile - which counts as landing on it again, so a
    loose tile can break (this is what the generator emits; the property text does not distinguish).
    Variant C: additionally the light fails with the light-break probability, and then the robot
    chooses freely among down and the tile's arrows. *)
From Coq Require Import String List Arith Bool.
From CR Require Import Model.Num Model.Graph Model.Game.
Import ListNotations.

Inductive arrow := ALeft | ABoth | ARight | ADown.       (* "<-", "<>", "->", "v" *)
Definition can_left (a : arrow) : bool := match a with ALeft | ABoth => true | _ => false end.
Definition can_right (a : arrow) : bool := match a with ABoth | ARight => true | _ => false end.
Definition down_only (a : arrow) : bool := match a with ADown => true | _ => false end.
(* the arrow codes of the generator's board *)
Definition arrow_of (code : nat) : arrow :=
  match code with 0 => ALeft | 1 => ABoth | 2 => ARight | _ => ADown end.

Inductive variant := VA | VB | VC.

(* phases of a round; positions are (row, column) *)
Inductive rstate :=
| Light (i j : nat)       (* the light chooses a signal *)
| Down (i j : nat)        (* the robot was told Green *)
| LR (i j : nat)          (* the robot was told Yellow *)
| Free (i j : nat)        (* C: the light failed, the robot chooses freely *)
| Land (i j : nat)        (* the robot lands on (i, j): the tile may break *)
| TryDown (i j : nat)     (* B, C: the robot tries to move; it may fail *)
| TryLeft (i j : nat)
| TryRight (i j : nat)
| SigGreen (i j : nat)    (* C: the light tries to show its signal; it may fail *)
| SigYellow (i j : nat)
| Lost
| Won.

(** labelled transition systems with owners, rewards and final states *)
Record lts (T S : Type) := mkLTS {
  l_owner : S -> kind;
  l_reward : S -> T;
  l_final : S -> bool;
  l_trans : S -> list (string * T * S)     (* (action label, probability, target) in order *)
}.
Arguments mkLTS {T S}. Arguments l_owner {T S}. Arguments l_reward {T S}.
Arguments l_final {T S}. Arguments l_trans {T S}.

(* [R] relates states with equal owner, reward and finality whose transition lists agree
   position by position: same label, same probability, related targets. (Position-wise agreement
   gives both transfer conditions of a bisimulation, see [bisim_forth] / [bisim_back].) *)
Definition bisimulation {T SA SB} (A : lts T SA) (B : lts T SB) (R : SA -> SB -> Prop) : Prop :=
  forall a b, R a b ->
    l_owner A a = l_owner B b /\ l_reward A a = l_reward B b /\ l_final A a = l_final B b /\
    Forall2 (fun x y => fst (fst x) = fst (fst y) /\ snd (fst x) = snd (fst y) /\ R (snd x) (snd y))
            (l_trans A a) (l_trans B b).

(* a typed game description as a transition system over state indices. The defaults of [nth]
   are unreachable for indices below the number of states. *)
Definition game_lts {T} (K : ops T) (g : game (T:=T)) : lts T nat :=
  mkLTS (fun s => nth s (g_players g) PR)
        (fun s => nth s (g_rewards g) (zero K))
        (fun s => mem_nat s (g_finals g))
        (fun s => map (fun t => (act t, pr t, dst t)) (nth s (g_trans g) [])).

Section Rules.
Context {T : Type} (K : ops T).
Variables (L W : nat).                       (* rows, columns *)
Variable arrows : nat -> nat -> arrow.
Variable reward : nat -> nat -> T.
Variable loose : nat -> nat -> bool.
Variables (ptb prb plb : T).                  (* tile / robot / light break probabilities *)

Definition left_of (j : nat) : nat := (j + W - 1) mod W.
Definition right_of (j : nat) : nat := (j + 1) mod W.
(* where a successful move down from row i leads *)
Definition below (i j : nat) : rstate := if i + 1 <? L then Land (i + 1) j else Won.

Definition owner (s : rstate) : kind :=
  match s with
  | Light _ _ => P2
  | Down _ _ | LR _ _ | Free _ _ => P1
  | _ => PR
  end.
Definition rreward (s : rstate) : T :=
  match s with Light i j => reward i j | _ => zero K end.
Definition rfinal (s : rstate) : bool := match s with Won => true | _ => false end.

Definition move (a : string) (s : rstate) : string * T * rstate := (a, zero K, s).
Definition chance (p : T) (s : rstate) : string * T * rstate := (""%string, p, s).
Definition comp (p : T) : T := sub K (one K) p.          (* 1 - p *)

Definition rtrans (v : variant) (s : rstate) : list (string * T * rstate) :=
  match s with
  | Light i j =>
    let green := match v with VC => SigGreen i j | _ => Down i j end in
    let yellow := match v with VC => SigYellow i j | _ => LR i j end in
    if down_only (arrows i j) then [move "Green" green]
    else [move "Green" green; move "Yellow" yellow]
  | Down i j => [move "Down" (match v with VA => below i j | _ => TryDown i j end)]
  | LR i j =>
    (if can_left (arrows i j)
     then [move "Left" (match v with VA => Land i (left_of j) | _ => TryLeft i j end)] else [])
    ++ (if can_right (arrows i j)
        then [move "Right" (match v with VA => Land i (right_of j) | _ => TryRight i j end)] else [])
  | Free i j =>
    move "Down" (TryDown i j)
    :: (if can_left (arrows i j) then [move "Left" (TryLeft i j)] else [])
    ++ (if can_right (arrows i j) then [move "Right" (TryRight i j)] else [])
  | Land i j =>
    if loose i j then [chance ptb Lost; chance (comp ptb) (Light i j)]
    else [chance (one K) (Light i j)]
  | TryDown i j => [chance prb (Land i j); chance (comp prb) (below i j)]
  | TryLeft i j => [chance prb (Land i j); chance (comp prb) (Land i (left_of j))]
  | TryRight i j => [chance prb (Land i j); chance (comp prb) (Land i (right_of j))]
  | SigGreen i j => [chance plb (Free i j); chance (comp plb) (Down i j)]
  | SigYellow i j => [chance plb (Free i j); chance (comp plb) (LR i j)]
  | Lost => [chance (one K) Lost]
  | Won => [chance (one K) Won]
  end.

Definition roborta (v : variant) : lts T rstate := mkLTS owner rreward rfinal (rtrans v).

(** the phases a play of variant [v] can be in (an invariant that contains [Light 0 0] and is closed
    under [rtrans v]): positions on the board, the phases of the variant, and no Yellow phase on a
    down-only tile *)
Definition on_board (i j : nat) : Prop := i < L /\ j < W.
Definition valid (v : variant) (s : rstate) : Prop :=
  match s with
  | Light i j | Down i j | Land i j => on_board i j
  | LR i j => on_board i j /\ down_only (arrows i j) = false
  | TryDown i j | TryLeft i j | TryRight i j => v <> VA /\ on_board i j
  | Free i j | SigGreen i j => v = VC /\ on_board i j
  | SigYellow i j => v = VC /\ on_board i j /\ down_only (arrows i j) = false
  | Lost | Won => True
  end.

(** the generator's numbering: group * L*W + i*W + j, then the losing and the winning state *)
Definition groups (v : variant) : nat := match v with VA => 4 | VB => 7 | VC => 10 end.
Definition group (v : variant) (s : rstate) : nat :=
  match s with
  | Light _ _ => 0 | Down _ _ => 1 | LR _ _ => 2
  | Free _ _ => 3
  | Land _ _ => match v with VC => 4 | _ => 3 end
  | TryDown _ _ => match v with VC => 5 | _ => 4 end
  | TryLeft _ _ => match v with VC => 6 | _ => 5 end
  | TryRight _ _ => match v with VC => 7 | _ => 6 end
  | SigGreen _ _ => 8 | SigYellow _ _ => 9
  | Lost | Won => groups v
  end.
Definition idx (v : variant) (s : rstate) : nat :=
  match s with
  | Lost => groups v * (L * W)
  | Won => groups v * (L * W) + 1
  | Light i j | Down i j | LR i j | Free i j | Land i j | TryDown i j | TryLeft i j | TryRight i j
  | SigGreen i j | SigYellow i j => group v s * (L * W) + i * W + j
  end.

(* the relation of the bisimulation theorems *)
Definition idx_rel (v : variant) (s : rstate) (k : nat) : Prop := valid v s /\ k = idx v s.

End Rules.

(** position-wise agreement implies the two transfer conditions *)
Lemma bisim_forth {T SA SB} (A : lts T SA) (B : lts T SB) R : bisimulation A B R ->
  forall a b, R a b -> forall l p a', In (l, p, a') (l_trans A a) ->
  exists b', In (l, p, b') (l_trans B b) /\ R a' b'.
Proof.
  intros HB a b HR l p a' Hin. destruct (HB a b HR) as (_ & _ & _ & HF).
  induction HF as [|x y la lb Hxy _ IH]; [destruct Hin|].
  destruct Hin as [E|Hin].
  - subst x. destruct y as [[l' p'] b']. cbn in Hxy. destruct Hxy as (E1 & E2 & E3). subst.
    exists b'. split; [left; reflexivity|assumption].
  - destruct (IH Hin) as (b' & H1 & H2). exists b'. split; [right; assumption|assumption].
Qed.

Lemma bisim_back {T SA SB} (A : lts T SA) (B : lts T SB) R : bisimulation A B R ->
  forall a b, R a b -> forall l p b', In (l, p, b') (l_trans B b) ->
  exists a', In (l, p, a') (l_trans A a) /\ R a' b'.
Proof.
  intros HB a b HR l p b' Hin. destruct (HB a b HR) as (_ & _ & _ & HF).
  induction HF as [|x y la lb Hxy _ IH]; [destruct Hin|].
  destruct Hin as [E|Hin].
  - subst y. destruct x as [[l' p'] a']. cbn in Hxy. destruct Hxy as (E1 & E2 & E3). subst.
    exists a'. split; [left; reflexivity|assumption].
  - destruct (IH Hin) as (a' & H1 & H2). exists a'. split; [right; assumption|assumption].
Qed.
