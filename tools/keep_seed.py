"""tools/keep_seed.py <ID> <name> "<needs>" "<caught_by>" — copies a confirmed seeded change from /tmp/mut/<ID>.out into seeded/<name>/"""
import json, os, shutil, sys
pid, name, needs, caught = sys.argv[1:5]
src = "/tmp/mut/%s.out" % pid
dst = os.path.join(os.path.dirname(os.path.dirname(os.path.abspath(__file__))), "seeded", name)
os.makedirs(dst, exist_ok=True)
shutil.copy(os.path.join(src, "patch.diff"), dst)
shutil.copy(os.path.join(src, "demo.py"), dst)
if os.path.exists(os.path.join(src, "notes.md")):
    shutil.copy(os.path.join(src, "notes.md"), dst)
json.dump(dict(property=pid, origin="blind sub-agent given only the property text and a scratch worktree",
               needs_to_manifest=needs,
               confirmed=["pytest on the changed tree: 57 passed", "demo.py on the changed tree: exit 1", "demo.py on the pristine tree: exit 0"],
               ran=["tools/try_mutant.sh seeded/%s/patch.diff %s" % (name, pid)], detected_by=caught),
          open(os.path.join(dst, "meta.json"), "w"), indent=1)
print("kept", dst)
