#!/bin/sh
# tools/eval_mut.sh <ID> <suffix> [check ids...]: confirm a blind mutant in /tmp/mut/<ID><suffix> and run checks against its worktree
id=$1; sfx=$2; shift 2
w=/tmp/mut/${id}${sfx}
(cd $w && /venv/bin/python -m pytest -q -p no:cacheprovider 2>&1 | tail -1)
/venv/bin/python $w.out/demo.py $w >/dev/null 2>&1; echo "demo mutant rc=$?"
/venv/bin/python $w.out/demo.py /repo >/dev/null 2>&1; echo "demo repo rc=$?"
for c in ${@:-$id}; do VERIF_REPO=$w timeout 2400 /verif/check $c 2>&1 | grep -E "VIOLATION|tier=" | cut -c1-220 | head -3; done
