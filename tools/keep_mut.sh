#!/bin/sh
# tools/keep_mut.sh <ID> <suffix> <name> <needs> <caught_by>: record a confirmed blind mutant under seeded/<name> and drop its worktree
id=$1; sfx=$2; name=$3; needs=$4; caught=$5
d=/verif/seeded/$name; mkdir -p $d
cp /tmp/mut/${id}${sfx}.out/patch.diff /tmp/mut/${id}${sfx}.out/demo.py $d/; cp /tmp/mut/${id}${sfx}.out/notes.md $d/ 2>/dev/null
python3 - "$id" "$name" "$needs" "$caught" <<'PY'
import json,sys
pid,name,needs,caught=sys.argv[1:5]
json.dump(dict(property=pid, origin="blind sub-agent, later round (see DESIGN.md D.6 for what each round was told)", needs_to_manifest=needs,
 confirmed=["pytest on the changed tree: 57 passed","demo.py on the changed tree: exit 1","demo.py on the pristine tree: exit 0"],
 ran=["VERIF_REPO=<worktree with the change> ./check %s"%pid], detected_by=caught), open("/verif/seeded/%s/meta.json"%name,"w"), indent=1)
PY
git -C /repo worktree remove --force /tmp/mut/${id}${sfx}; rm -rf /tmp/mut/${id}${sfx}.out
echo kept $name
