"""Hand-made mutation table (DESIGN section 7): each entry edits one place of /repo's working tree, runs the repository's
tests and the named checks (quick tier), and restores the tree. Writes seeded/handmade/RESULTS.md.
usage: tools/handmade_mutants.py [name ...]"""
import os, subprocess, sys, json, time

REPO = "/repo"
VERIF = os.path.dirname(os.path.dirname(os.path.abspath(__file__)))

# name, file, old, new, checks to run, expectation ("alarm" / "quiet")
M = [
 ("reach-p1-ge", "tad.py", "            if next_state_reach_prob > max_reach_prob:\n                max_reach_prob = next_state_reach_prob\n        return max_reach_prob",
  "            if next_state_reach_prob >= max_reach_prob:\n                max_reach_prob = next_state_reach_prob\n        return max_reach_prob", ["C01"], "quiet"),
 ("reach-p2-max", "tad.py", "            if next_state_reach_prob < min_reach_prob:\n                min_reach_prob = next_state_reach_prob",
  "            if next_state_reach_prob > min_reach_prob:\n                min_reach_prob = next_state_reach_prob", ["C01", "C04"], "alarm"),
 ("reach-strategy-ge", "tad.py", "            if next_state_reach_probability > max_probability:\n                max_probability = next_state_reach_probability\n                best_strategies = [action]",
  "            if next_state_reach_probability >= max_probability:\n                max_probability = next_state_reach_probability\n                best_strategies = [action]", ["C04", "C05"], "alarm"),
 ("reach-strategy-round5", "tad.py", "        self.floor = abs(math.floor(math.log(threshold, 10)))", "        self.floor = abs(math.floor(math.log(threshold, 10))) - 1", ["C04"], "alarm"),
 ("threshold-1e-5", "tad.py", "        solver = Solver(threshold=10**(-6), state_list=state_list)", "        solver = Solver(threshold=10**(-5), state_list=state_list)", ["C01", "C02"], "alarm"),
 ("prob-weight-swap", "tad.py", "            value += _next_state.reach_probability * next_state[PROBABILITY]\n        return value",
  "            value += _next_state.reach_probability\n        return value / len(self.next_states)", ["C01"], "alarm"),
 ("prune-renorm-1minus", "tad.py", "            self.next_states = [(_next_state[PROBABILITY] / total, _next_state[NEXT_STATE_IDX])",
  "            self.next_states = [(_next_state[PROBABILITY] / (2 - total) if total < 1 else _next_state[PROBABILITY], _next_state[NEXT_STATE_IDX])", ["C03", "C02"], "alarm"),
 ("prune-p1-keeps-dead", "tad.py", "        self.next_states = [_next_state for _next_state in self.next_states\n                            if state_list[_next_state[NEXT_STATE_IDX]].reach_probability != 0]",
  "        self.next_states = [_next_state for _next_state in self.next_states\n                            if state_list[_next_state[NEXT_STATE_IDX]].reach_probability != 0] or self.next_states", ["C03"], "alarm"),
 ("prune-states-clears-p1", "tad.py", "                if state.player != PLAYER_1 and idx not in reachable_states:", "                if idx not in reachable_states:", ["C03", "C02"], "alarm"),
 ("rew-p1-strict", "tad.py", "            if next_state_exp_rewards >= max_rewards:", "            if next_state_exp_rewards > max_rewards:", ["C14", "C06"], "alarm"),
 ("rew-p2-strict", "tad.py", "            if next_state_exp_rewards <= min_rewards:", "            if next_state_exp_rewards < min_rewards:", ["C14", "C06"], "alarm"),
 ("final-strategy-min-first", "tad.py", "        min_rewards = round(state_list[self.next_states[0][NEXT_STATE_IDX]].expected_rewards, floor)\n        worst_strategies = []",
  "        min_rewards = round(state_list[self.next_states[-1][NEXT_STATE_IDX]].expected_rewards, floor)\n        worst_strategies = []", ["C05"], "alarm"),
 ("minreach-first", "tad.py", "                if next_state_exp_rewards < min_rewards:\n                    min_rewards = next_state_exp_rewards\n        min_rewards += self.reward\n        return min_rewards",
  "                if next_state_exp_rewards > min_rewards:\n                    min_rewards = next_state_exp_rewards\n        min_rewards += self.reward\n        return min_rewards", ["C14"], "alarm"),
 ("no-solution-without-prune", "tad.py", "        if self.state_list[0].reach_probability == 0 and prune_states:", "        if self.state_list[0].reach_probability == 0:", ["C06"], "alarm"),
 ("validation-ge-to-gt", "tad.py", "next_state[NEXT_STATE_IDX] >= self.num_states:", "next_state[NEXT_STATE_IDX] > self.num_states:", ["C09"], "alarm"),
 ("validation-final-range", "tad.py", "        if max(self.final_states) >= self.num_states or min(self.final_states) < 0:", "        if max(self.final_states) > self.num_states or min(self.final_states) < 0:", ["C09"], "alarm"),
 ("validation-reward-zero", "tad.py", "        if min(self.rewards) < 0:", "        if min(self.rewards) <= 0:", ["C09", "C06"], "alarm"),
 ("dfs-sort-dropped", "reverse_dfs.py", "    states_reaching_final.sort()\n", "", ["C07", "C01"], "alarm"),
 ("table-missing-states", "reverse_dfs.py", "    for state in range(number_of_states):", "    for state in range(number_of_states - 1):", ["C07"], "alarm"),
 ("batch-no-deepcopy", "conditionalrewards.py", "            game_copy = copy.deepcopy(game)", "            game_copy = game", ["C12", "C10"], "quiet"),
 ("batch-flag-not-reset", "conditionalrewards.py", "    for name, game in games_dict.items():\n        prev_game_had_solution = True",
  "    prev_game_had_solution = True\n    for name, game in games_dict.items():", ["C12"], "alarm"),
 ("report-swapped-lines", "conditionalrewards.py", "            file.write(f\"Probabilities           : {game['probabilities']}\\n\")", "            file.write(f\"Probabilities           : {game['prob_min_rew']}\\n\")", ["C16"], "alarm"),
 ("board-b-left-wrap", "roberta_generator.py", "                transition.append((1 - prob_robot_break, offset + i * width + width - 1))", "                transition.append((1 - prob_robot_break, offset + i * width + width - 2 if width > 1 else offset + i * width))", ["C08", "C11"], "alarm"),
 ("board-lose-offset", "roberta_generator.py", "    loosing_state = n_tiles * total\n    winning_state = n_tiles * total + 1\n\n    my_rewards = [reward for sublist in rewards for reward in sublist] + \\\n                 [0] * n_tiles * (total-1) + \\\n                 [0, 0]\n\n    my_players = [\"Player 2\" for i in range(n_tiles)] + \\\n                 [\"Player 1\" for i in range(n_tiles*n_robot_groups)] + \\\n                 [\"Probabilistic\" for i in range(n_tiles*n_prob_groups)] + \\\n                 [\"Probabilistic\", \"Probabilistic\"]  # The bad and the good states",
  "    loosing_state = n_tiles * total + 1\n    winning_state = n_tiles * total\n\n    my_rewards = [reward for sublist in rewards for reward in sublist] + \\\n                 [0] * n_tiles * (total-1) + \\\n                 [0, 0]\n\n    my_players = [\"Player 2\" for i in range(n_tiles)] + \\\n                 [\"Player 1\" for i in range(n_tiles*n_robot_groups)] + \\\n                 [\"Probabilistic\" for i in range(n_tiles*n_prob_groups)] + \\\n                 [\"Probabilistic\", \"Probabilistic\"]  # The bad and the good states", ["C08", "C11"], "alarm"),
 ("check-input-width", "roberta_generator.py", "    if width <= 0:", "    if width < 0:", ["C15"], "alarm"),
 ("name-swap-tb-lt", "roberta_generator.py", "                \"tb\" + prob_to_str(prob_tile_break) + \"_\" +  \\\n                \"lt\" + prob_to_str(prob_loose_tile) + \\", "                \"tb\" + prob_to_str(prob_loose_tile) + \"_\" +  \\\n                \"lt\" + prob_to_str(prob_tile_break) + \\", ["C17"], "alarm"),
 # behaviour-preserving rewrites: must stay quiet
 ("rewrite-listcomp-loop", "tad.py", "        self.next_states = [\n            (action, next_state) for action, next_state in self.next_states\n            if action in best_strategies]",
  "        kept = []\n        for action, next_state in self.next_states:\n            if action in best_strategies:\n                kept.append((action, next_state))\n        self.next_states = kept", ["C03", "C05", "C10"], "quiet"),
 ("rewrite-check-order", "tad.py", "        solver.prune_reachability(reachability_strategies)\n ", "        solver.prune_reachability(list(reachability_strategies))\n ", ["C02", "C05"], "quiet"),
 ("rewrite-dfs-set", "reverse_dfs.py", "    states_reaching_final = [state for state in states_reaching_final if state not in final_states]", "    finals = set(final_states)\n    states_reaching_final = [state for state in states_reaching_final if state not in finals]", ["C07", "C01"], "quiet"),
]


def sh(cmd, cwd=None, timeout=1800):
    p = subprocess.run(cmd, shell=True, cwd=cwd, stdout=subprocess.PIPE, stderr=subprocess.STDOUT, text=True, timeout=timeout)
    return p.returncode, p.stdout


def main():
    only = set(sys.argv[1:])
    rc, out = sh("git status --porcelain", REPO)
    if out.strip():
        print("/repo not clean"); sys.exit(2)
    rows = []
    for name, fn, old, new, checks, expect in M:
        if only and name not in only:
            continue
        path = os.path.join(REPO, fn)
        src = open(path).read()
        if src.count(old) != 1:
            rows.append((name, fn, "SKIPPED: pattern occurs %d times" % src.count(old), "", expect)); print(rows[-1]); continue
        open(path, "w").write(src.replace(old, new))
        try:
            _, t = sh("/venv/bin/python -m pytest -q -p no:cacheprovider 2>&1 | tail -1", REPO)
            res = []
            for c in checks:
                if not os.path.exists(os.path.join(VERIF, "harness", "props", c.lower() + ".py")):
                    res.append("%s:absent" % c); continue
                rc, o = sh("./check %s" % c, VERIF)
                v = [l for l in o.split("\n") if l.startswith("VIOLATION")]
                kind = "quiet" if not v else ("alarm(no-input)" if all("no-failing-input-found" in l for l in v) else "alarm(concrete)")
                res.append("%s:%s" % (c, kind))
        finally:
            sh("git checkout -- .", REPO)
        rows.append((name, fn, t.strip(), " ".join(res), expect))
        print(rows[-1], flush=True)
    os.makedirs(os.path.join(VERIF, "seeded", "handmade"), exist_ok=True)
    with open(os.path.join(VERIF, "seeded", "handmade", "RESULTS.md"), "a") as f:
        f.write("\n## run of %s\n\n| mutant | file | repository tests | checks (quick tier) | expected |\n|---|---|---|---|---|\n" % time.strftime("%Y-%m-%d %H:%M"))
        for r in rows:
            f.write("| %s | %s | %s | %s | %s |\n" % r)


if __name__ == "__main__":
    main()
