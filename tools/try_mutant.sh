#!/bin/sh
# tools/try_mutant.sh <patch.diff> <ID> [<ID> ...]
# Applies a seeded change to /repo's working tree, runs the named checks (quick tier), and restores /repo.
# Used only while validating the machinery; nothing is ever committed in /repo by this script.
patch="$1"; shift
cd /repo || exit 2
if [ -n "$(git status --porcelain)" ]; then echo "/repo is not clean"; exit 2; fi
git apply "$patch" || { echo "patch does not apply"; exit 2; }
echo "== baseline tests with the change:"
/venv/bin/python -m pytest -q -p no:cacheprovider 2>&1 | tail -1
for id in "$@"; do
  echo "== check $id"
  (cd /verif && ./check "$id" 2>&1 | tail -4 | cut -c1-300)
done
cd /repo && git checkout -- . && git status --porcelain | head -3
