#!/bin/sh
# tools/regress_harmless.sh: apply each behaviour-preserving refactor of seeded/harmless/ in a scratch worktree and run the checks
# of the properties it touches; every line must end without VIOLATION
V=$(cd "$(dirname "$0")/.." && pwd)
run() { r=$1; shift; wt=/tmp/mut/reg/$r; git -C /repo worktree remove --force $wt 2>/dev/null; git -C /repo worktree add --detach $wt >/dev/null 2>&1
  git -C $wt apply $V/seeded/harmless/$r/patch.diff || { echo "$r: patch does not apply"; return; }
  for c in "$@"; do out=$(VERIF_REPO=$wt $V/check $c 2>&1); if echo "$out" | grep -q '^VIOLATION'; then echo "$r $c ALARM"; else echo "$r $c quiet"; fi; done
  git -C /repo worktree remove --force $wt; }
mkdir -p /tmp/mut/reg
run R1 C01 C02 C03 C04 C05 C06 C09 C10 C12 C13 C14
run R2 C01 C02 C03 C04 C05 C06 C09 C10 C12 C13 C14
run R3 C07 C01
run R4 C08 C11 C15 C17
run R5 C12 C16 C09
