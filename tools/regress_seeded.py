"""Re-run every recorded seeded change against the checks as they are now: for each seeded/<name>/patch.diff a scratch
worktree of /repo (under /tmp/mut/reg, removed afterwards) gets the patch and the property's quick check runs against it
(VERIF_REPO). Writes seeded/REGRESSION.md. usage: tools/regress_seeded.py [name-prefix ...]"""
import glob, json, os, re, subprocess, sys, time
from concurrent.futures import ThreadPoolExecutor

VERIF = os.path.dirname(os.path.dirname(os.path.abspath(__file__)))
REG = "/tmp/mut/reg"


def sh(cmd, cwd=None, timeout=3000):
    p = subprocess.run(cmd, shell=True, cwd=cwd, stdout=subprocess.PIPE, stderr=subprocess.STDOUT, text=True, timeout=timeout)
    return p.returncode, p.stdout


def verdict(out):
    v = [l for l in out.split("\n") if l.startswith("VIOLATION")]
    if not v:
        return "MISSED"
    return "unproven (no input)" if all("no-failing-input-found" in l for l in v) else "concrete"


def one_property(item):
    pid, names = item
    rows = []
    for name in names:
        d = os.path.join(VERIF, "seeded", name)
        wt = os.path.join(REG, name)
        sh("git -C /repo worktree remove --force %s" % wt)
        rc, o = sh("git -C /repo worktree add --detach %s" % wt)
        rc, o = sh("git apply %s" % os.path.join(d, "patch.diff"), cwd=wt)
        if rc != 0:
            rows.append((name, pid, "patch does not apply: " + o.strip()[:80], ""))
            sh("git -C /repo worktree remove --force %s" % wt)
            continue
        t0 = time.time()
        rc, o = sh("VERIF_REPO=%s ./check %s" % (wt, pid), cwd=VERIF)
        v = verdict(o)
        other = ""
        if v == "MISSED":
            meta = json.load(open(os.path.join(d, "meta.json")))
            for q in sorted(set(re.findall(r"C\d\d", meta.get("detected_by", ""))) - {pid}):
                rc, o2 = sh("VERIF_REPO=%s ./check %s" % (wt, q), cwd=VERIF)
                other += " %s:%s" % (q, verdict(o2))
        rows.append((name, pid, v, other.strip()))
        print("%-55s %s %s %s (%.0fs)" % (name, pid, v, other, time.time() - t0), flush=True)
        sh("git -C /repo worktree remove --force %s" % wt)
    return rows


def main():
    pref = sys.argv[1:]
    by = {}
    for d in sorted(glob.glob(os.path.join(VERIF, "seeded", "C*"))):
        name = os.path.basename(d)
        if pref and not any(name.startswith(p) for p in pref):
            continue
        pid = json.load(open(os.path.join(d, "meta.json")))["property"]
        by.setdefault(pid, []).append(name)
    os.makedirs(REG, exist_ok=True)
    with ThreadPoolExecutor(max_workers=4) as ex:
        res = list(ex.map(one_property, sorted(by.items())))
    rows = [r for rs in res for r in rs]
    seed = os.environ.get("VERIF_SEED", "0")
    with open(os.path.join(VERIF, "seeded", ("REGRESSION.md" if seed == "0" else "REGRESSION_seed%s.md" % seed) if not pref else "REGRESSION_partial.md"), "w") as f:
        f.write("# Seeded changes re-run against the checks as they are now\n\nrun of %s, quick tier, seed %s; produced by tools/regress_seeded.py\n\n"
                "| seeded change | property | verdict of the property's own check | other checks named in meta.json |\n|---|---|---|---|\n"
                % (time.strftime("%Y-%m-%d %H:%M"), seed))
        for r in rows:
            f.write("| %s | %s | %s | %s |\n" % r)
        f.write("\n%d changes, %d concrete, %d missed by their own check\n" % (len(rows), sum(r[2] == "concrete" for r in rows), sum(r[2] == "MISSED" for r in rows)))
    print("missed:", [r[0] for r in rows if r[2] == "MISSED"])


if __name__ == "__main__":
    main()
