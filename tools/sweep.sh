#!/bin/sh
# tools/sweep.sh <tier> <seed> [<seed> ...]  — run every registered check for the given seeds (used with `vp run`)
tier="$1"; shift
python3 harness/mk_coqproject.py && (cd coq && coq_makefile -f _CoqProject -o Makefile >/dev/null && make -j16 >/dev/null 2>&1)
ids=$(python3 -c "import json; print(' '.join(c['property_id'] for c in json.load(open('MANIFEST.json'))['checks']))")
for seed in "$@"; do
  for id in $ids; do
    VERIF_SEED=$seed ./check $id --tier $tier 2>&1 | grep -v "^KNOWN-FINDING" | tail -3 | cut -c1-220
  done
done
